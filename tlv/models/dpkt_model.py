"""Spec-level parser for Ethernet II / IPv4 / IPv6 / TCP / UDP over (symbolic) byte strings, shaped like the part of dpkt
that tlexport.packet.Packet and tlexport.checksums use.  Scope: Ethernet II frames, IPv4 without fragmentation, IPv6 without
extension headers.  Everything else is handed back as opaque data, as dpkt does for unknown protocols."""
from tlv.sx.shims import IntShim
from tlv.sx.core import SymInt


class NeedData(Exception):
    pass


class UnpackError(Exception):
    pass


def _u(b):
    return IntShim.from_bytes(b, "big")


def nat(x):
    """Fully concrete proxy strings become native bytes (what dpkt would hand out)."""
    if hasattr(x, "is_concrete") and x.is_concrete():
        return bytes(x.e)
    return x


class _Seg:
    def __init__(self, raw):
        self._raw = raw

    def __len__(self):
        return len(self._raw)

    def __bytes__(self):
        return self._raw


class TCP(_Seg):
    def __init__(self, buf):
        if len(buf) < 20:
            raise NeedData("short TCP header")
        super().__init__(buf)
        self.sport = _u(buf[0:2])
        self.dport = _u(buf[2:4])
        self.seq = _u(buf[4:8])
        self.ack = _u(buf[8:12])
        off = buf[12] >> 4
        self.flags = buf[13]
        self.win = _u(buf[14:16])
        self.sum = _u(buf[16:18])
        self.urp = _u(buf[18:20])
        ol = (off << 2) - 20
        if ol < 0:
            raise UnpackError("invalid header length")
        if isinstance(ol, SymInt):
            ol = ol.concretise()
        self.opts = buf[20:20 + ol]
        self.data = buf[20 + ol:]


class UDP(_Seg):
    def __init__(self, buf):
        if len(buf) < 8:
            raise NeedData("short UDP header")
        super().__init__(buf)
        self.sport = _u(buf[0:2])
        self.dport = _u(buf[2:4])
        self.ulen = _u(buf[4:6])
        self.sum = _u(buf[6:8])
        self.data = buf[8:]


class IP:
    __hdr_len__ = 20          # dpkt: length of the fixed part (options are in .opts)

    def __init__(self, buf):
        if len(buf) < 20:
            raise NeedData("short IP header")
        self._v_hl = buf[0]
        self.tos = buf[1]
        self.len = _u(buf[2:4])
        self.id = _u(buf[4:6])
        self._flags_offset = _u(buf[6:8])
        self.offset = self._flags_offset & 0x1fff
        self.ttl = buf[8]
        self.p = buf[9]
        self.sum = _u(buf[10:12])
        self.src = nat(buf[12:16])
        self.dst = nat(buf[16:20])
        ol = ((self._v_hl & 0xf) << 2) - 20
        if ol < 0:
            raise UnpackError("invalid header length")
        if isinstance(ol, SymInt):
            ol = ol.concretise()
        self.opts = buf[20:20 + ol]
        if self.len:
            body = buf[20 + ol:self.len]
        else:
            body = buf[20 + ol:]
        self.data = body
        try:
            if self.offset == 0:
                if self.p == 6:
                    self.data = self.tcp = TCP(body)
                elif self.p == 17:
                    self.data = self.udp = UDP(body)
        except (NeedData, UnpackError):
            self.data = body


class IP6:
    __hdr_len__ = 40

    def __init__(self, buf):
        if len(buf) < 40:
            raise NeedData("short IPv6 header")
        self.plen = _u(buf[4:6])
        self.nxt = buf[6]
        self.hlim = buf[7]
        self.src = nat(buf[8:24])
        self.dst = nat(buf[24:40])
        body = buf[40:]
        if self.plen:
            body = body[:self.plen]
        # extension headers as dpkt.ip6 walks them: hop-by-hop (0), routing (43), destination options (60): (len + 1) * 8 bytes;
        # fragment (44): 8 bytes; authentication (51): (len + 2) * 4 bytes; .p is the protocol after the last of them
        p = self.nxt
        for _ in range(8):
            if p == 0 or p == 43 or p == 60:
                if len(body) < 8:
                    raise NeedData("short extension header")
                ln = (int(body[1]) + 1) * 8
            elif p == 44:
                if len(body) < 8:
                    raise NeedData("short fragment header")
                ln = 8
            elif p == 51:
                if len(body) < 8:
                    raise NeedData("short authentication header")
                ln = (int(body[1]) + 2) * 4
            else:
                break
            p = body[0]
            body = body[ln:]
        self.p = p
        self.data = body
        try:
            if self.p == 6:
                self.data = self.tcp = TCP(body)
            elif self.p == 17:
                self.data = self.udp = UDP(body)
        except (NeedData, UnpackError):
            self.data = body


class Ethernet:
    def __init__(self, buf):
        if len(buf) < 14:
            raise NeedData("short Ethernet header")
        self.dst = nat(buf[0:6])
        self.src = nat(buf[6:12])
        self.type = _u(buf[12:14])
        self.data = buf[14:]
        try:
            if self.type == 0x0800:
                self.data = self.ip = IP(buf[14:])
            elif self.type == 0x86DD:
                self.data = self.ip6 = IP6(buf[14:])
        except (NeedData, UnpackError):
            self.data = buf[14:]


class _NS:
    def __init__(self, **kw):
        self.__dict__.update(kw)


def namespace():
    """Object to be bound to the name `dpkt` in tlexport.packet."""
    return _NS(ethernet=_NS(Ethernet=Ethernet), ip=_NS(IP=IP), ip6=_NS(IP6=IP6), tcp=_NS(TCP=TCP), udp=_NS(UDP=UDP),
               NeedData=NeedData, UnpackError=UnpackError)
