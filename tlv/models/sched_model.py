"""Scheduling model for concurrent.futures as seen by the code under test.

Tasks run to completion one after the other in submission order (one legal schedule of independent tasks; data races between tasks are
outside the model); what the scheduler decides - the order in which futures *complete* - is chosen by the solver every time
as_completed() / wait() is asked, so code whose result depends on completion order splits into paths with different results."""
import itertools


class Future:
    def __init__(self, fn, a, k):
        try:
            self._result, self._exc = fn(*a, **k), None
        except Exception as e:          # noqa: the future re-raises it in result()
            self._result, self._exc = None, e

    def result(self, timeout=None):
        if self._exc is not None:
            raise self._exc
        return self._result

    def exception(self, timeout=None):
        return self._exc

    def done(self):
        return True

    def cancelled(self):
        return False

    def add_done_callback(self, fn):
        fn(self)


class Executor:
    def __init__(self, *a, **k):
        pass

    def __enter__(self):
        return self

    def __exit__(self, *a):
        return False

    def submit(self, fn, *a, **k):
        return Future(fn, a, k)

    def map(self, fn, *iterables, timeout=None, chunksize=1):
        return iter([fn(*args) for args in zip(*iterables)])       # results in submission order, as documented

    def shutdown(self, wait=True, **k):
        pass


def _order(n):
    from tlv.sx.core import ctx, sym_choice
    if n <= 1:
        return list(range(n))
    c = ctx()
    k = c.path_data.get("sched_calls", 0)
    c.path_data["sched_calls"] = k + 1
    perms = list(itertools.permutations(range(n))) if n <= 3 else \
        list(dict.fromkeys([tuple(range(n)), tuple(reversed(range(n)))] + [tuple(list(range(i, n)) + list(range(i))) for i in range(n)]))
    return list(sym_choice("completion_order%d" % k, perms))


def as_completed(fs, timeout=None):
    fs = list(fs)
    return iter([fs[i] for i in _order(len(fs))])


def wait(fs, timeout=None, return_when="ALL_COMPLETED"):
    fs = list(fs)

    class Done(list):
        pass
    return Done(fs[i] for i in _order(len(fs))), set()


class Namespace:
    ThreadPoolExecutor = ProcessPoolExecutor = Executor
    Future = Future
    as_completed = staticmethod(as_completed)
    wait = staticmethod(wait)
    ALL_COMPLETED, FIRST_COMPLETED, FIRST_EXCEPTION = "ALL_COMPLETED", "FIRST_COMPLETED", "FIRST_EXCEPTION"


class Concurrent:
    futures = Namespace


def install(module):
    """Replace references to concurrent.futures in a module's globals by the model."""
    import concurrent.futures as real
    import concurrent as real_pkg
    for k, v in list(vars(module).items()):
        if v is real.ThreadPoolExecutor or v is real.ProcessPoolExecutor:
            setattr(module, k, Executor)
        elif v is real.as_completed:
            setattr(module, k, as_completed)
        elif v is real.wait:
            setattr(module, k, wait)
        elif v is real:
            setattr(module, k, Namespace)
        elif v is real_pkg:
            setattr(module, k, Concurrent)
