"""Check driver: fans configurations out over worker processes, replays counterexamples on the real code,
applies the known-findings file, writes the evidence file, sets the exit status.

exit 0: property held on everything explored (known findings are printed as KNOWN-FINDING lines)
exit 1: a violation reproduced on the real code and not listed in known_findings.jsonl (VIOLATION line)
exit 3: inconclusive / harness error (never reported as success, never as a violation)
"""
import argparse
import importlib
import json
import multiprocessing as mp
import os
import sys
import time
import traceback

ROOT = os.path.dirname(os.path.dirname(os.path.abspath(__file__)))
REPO = os.environ.get("TLV_REPO", "/repo")
EVIDENCE_DIR = os.path.join(ROOT, "evidence")
REPLAY_DIR = os.path.join(ROOT, "replays")
KNOWN_FILE = os.path.join(ROOT, "known_findings.jsonl")

_ENV_MODE = [None]
_COVERED = set()


def setup_env(mode):
    """mode 'stub': ideal-crypto and recorder packages shadow cryptography/scapy; 'real': the real ones."""
    if _ENV_MODE[0] == mode:
        return
    if _ENV_MODE[0] is not None:
        raise RuntimeError("environment mode already fixed to %s" % _ENV_MODE[0])
    _ENV_MODE[0] = mode
    import logging
    import warnings
    warnings.simplefilter("ignore")
    logging.disable(logging.CRITICAL)
    if ROOT not in sys.path:
        sys.path.insert(0, ROOT)
    if mode == "stub":
        sys.path.insert(0, os.path.join(ROOT, "tlv", "stubs"))
    if REPO not in sys.path:
        sys.path.insert(1 if mode == "stub" else 0, REPO)
    os.environ["TLV_ENV_MODE"] = mode
    _start_coverage()


def _start_coverage():
    try:
        mon = sys.monitoring
        tool = 3
        mon.use_tool_id(tool, "tlv")
        prefix = os.path.join(REPO, "tlexport")

        def on_start(code, off):
            fn = code.co_filename
            if fn.startswith(prefix):
                _COVERED.add("%s:%s" % (os.path.relpath(fn, REPO), code.co_qualname))
            return mon.DISABLE

        mon.register_callback(tool, mon.events.PY_START, on_start)
        mon.set_events(tool, mon.events.PY_START)
    except Exception:
        pass


def _worker(args):
    modname, mode, cfg = args
    t0 = time.time()
    try:
        setup_env(mode)
        mod = importlib.import_module(modname)
        out = mod.run_config(cfg)
        out.setdefault("cfg", cfg)
        out["covered"] = sorted(_COVERED)
        out["wall_s"] = time.time() - t0
        return out
    except BaseException as e:  # harness error
        return {"cfg": cfg, "error": "%s: %s\n%s" % (type(e).__name__, e, traceback.format_exc()), "wall_s": time.time() - t0,
                "covered": sorted(_COVERED)}


def _replay_worker(args):
    modname, cfg, viol = args
    import contextlib
    import io
    try:
        setup_env("real")
        mod = importlib.import_module(modname)
        with contextlib.redirect_stdout(io.StringIO()):
            return mod.replay(cfg, viol)
    except BaseException as e:
        return {"reproduced": None, "error": "%s: %s\n%s" % (type(e).__name__, e, traceback.format_exc())}


def _validate_worker(args):
    modname, cfg, sample = args
    import contextlib
    import io
    try:
        setup_env("real")
        mod = importlib.import_module(modname)
        with contextlib.redirect_stdout(io.StringIO()):
            return mod.validate(cfg, sample)
    except BaseException as e:
        return {"agree": None, "error": "%s: %s\n%s" % (type(e).__name__, e, traceback.format_exc())}


def load_known(pid):
    out = []
    if os.path.exists(KNOWN_FILE):
        for line in open(KNOWN_FILE):
            line = line.strip()
            if not line or line.startswith("#"):
                continue
            if line.startswith("fixed:"):
                continue
            rec = json.loads(line)
            if rec.get("property") == pid and rec.get("status") == "known":
                out.append(rec)
    return out


def match_known(known, cfg, viol):
    for rec in known:
        sig = rec["signature"]
        if sig.get("label") and sig["label"] != viol.get("label"):
            continue
        if sig.get("harness") and sig["harness"] != cfg.get("harness"):
            continue
        pred = sig.get("predicate")
        if pred:
            env = {"inp": viol.get("inputs", {}), "cfg": cfg, "detail": viol.get("detail"), "rep": viol.get("replay_result", {}),
                   "int": int, "len": len, "bytes": bytes, "any": any, "all": all, "str": str}
            try:
                if not eval(pred, {"__builtins__": {}}, env):
                    continue
            except Exception:
                continue
        return rec
    return None


def main(argv=None):
    ap = argparse.ArgumentParser()
    ap.add_argument("pid")
    ap.add_argument("--tier", default=os.environ.get("VERIF_TIER", "quick"), choices=["quick", "thorough"])
    ap.add_argument("--replay")
    ap.add_argument("--witness", action="store_true", help="reachability twin: final assertion False must be violated")
    ap.add_argument("--jobs", type=int, default=int(os.environ.get("TLV_JOBS", "16")))
    ap.add_argument("--only", help="substring filter on configuration names (debugging)")
    ap.add_argument("--no-evidence", action="store_true")
    a = ap.parse_args(argv)
    pid = a.pid.upper()
    seed = int(os.environ.get("VERIF_SEED", "0") or 0)
    modname = "tlv.harness.%s" % pid.lower()
    t0 = time.time()
    if ROOT not in sys.path:
        sys.path.insert(0, ROOT)
    # harness modules import the repository only inside run_config/replay/validate (worker processes)
    meta = importlib.import_module(modname)
    if a.replay:
        rec = json.load(open(a.replay))
        r = _run_pool([(modname, rec["cfg"], rec["violation"])], _replay_worker, 1)[0]
        print(json.dumps(r, indent=1, default=str))
        if r.get("reproduced"):
            print("VIOLATION property=%s replay=%s" % (pid, a.replay))
            return 1
        return 0 if r.get("reproduced") is False else 3
    os.environ["TLV_TIER"] = a.tier
    cfgs = meta.configs(a.tier, seed)
    if a.only:
        cfgs = [c for c in cfgs if a.only in c.get("name", "")]
    if a.witness:
        for c in cfgs:
            c["witness"] = True
    jobs = [(modname, c.get("mode", "stub"), c) for c in cfgs]
    results = _run_pool(jobs, _worker, a.jobs)
    # ---- aggregate
    agg = {"paths": 0, "decisions": 0, "queries": 0, "solver_s": 0.0, "unknown": 0, "realised": 0, "width_exceeded": 0,
           "checks": 0, "infeasible": 0, "budget": 0, "xcheck_agree": 0, "xcheck_unknown": 0, "xcheck_disagree": 0, "xcheck_s": 0.0}
    errors, inconclusive, viols, samples, covered, sites = [], [], [], [], set(), {}
    extra = {}
    for r in results:
        covered.update(r.get("covered", []))
        if "error" in r:
            errors.append("%s: %s" % (r["cfg"].get("name"), r["error"]))
            continue
        for k in agg:
            agg[k] += r.get("stats", {}).get(k, 0)
        for m in r.get("inconclusive", []):
            inconclusive.append("%s: %s" % (r["cfg"].get("name"), m))
        for v in r.get("violations", []):
            viols.append((r["cfg"], v))
        for s in r.get("samples", []):
            samples.append({"cfg": r["cfg"].get("name"), **s})
        for k, v in r.get("sites", {}).items():
            sites[k] = sites.get(k, 0) + v
        for k, v in r.get("extra", {}).items():
            if isinstance(v, (int, float)):
                extra[k] = extra.get(k, 0) + v
            else:
                extra.setdefault(k, []).append(v)
    # vacuity: every registered assertion site must have been evaluated on a feasible path
    unreached = []
    if hasattr(meta, "SITES") and not a.only:
        for s in meta.SITES:
            if sites.get(s, 0) == 0:
                unreached.append(s)
    if a.witness:
        wit = [v for _, v in viols if v["label"] == "witness"]
        missing = [c.get("name") for c in cfgs if not any(cc is c or cc.get("name") == c.get("name") for cc, v in viols if v["label"] == "witness")]
        print("witness: %d/%d configurations reach their final assertion" % (len(cfgs) - len(missing), len(cfgs)))
        for m in missing:
            print("  not reached:", m)
        return 0 if not missing and not errors else 3
    # ---- replay counterexamples on the real code
    known = load_known(pid)
    os.makedirs(REPLAY_DIR, exist_ok=True)
    confirmed, unconfirmed, known_hits = [], [], {}
    seen_sig = set()
    todo = []
    for cfg, v in viols:
        sig = (cfg.get("harness"), v["label"], json.dumps(v.get("inputs"), sort_keys=True))
        if sig in seen_sig:
            continue
        seen_sig.add(sig)
        todo.append((cfg, v))
    # at most two counterexamples per (configuration, assertion) are replayed, so that a noisy one cannot crowd out the others
    per, picked = {}, []
    for cfg, v in todo:
        k = (cfg.get("name"), v["label"])
        per[k] = per.get(k, 0) + 1
        if per[k] <= 2:
            picked.append((cfg, v))
    max_replays = int(os.environ.get("TLV_MAX_REPLAYS", "160"))
    unreplayed = max(0, len(picked) - max_replays)
    todo = picked[:max_replays]
    rr = _run_pool([(modname, c, v) for c, v in todo], _replay_worker, a.jobs) if todo else []
    n_new = 0
    for (cfg, v), r in zip(todo, rr):
        v["replay_result"] = r
        if r.get("reproduced"):
            k = match_known(known, cfg, v)
            if k is not None:
                known_hits.setdefault(k["id"], (k, cfg, v))
                continue
            n_new += 1
            path = os.path.join(REPLAY_DIR, "%s-%d.json" % (pid, n_new))
            json.dump({"property": pid, "cfg": cfg, "violation": v}, open(path, "w"), indent=1, default=str)
            confirmed.append((path, cfg, v))
        else:
            unconfirmed.append((cfg, v, r))
    # ---- model validation: concretised passing paths must pass on the real code too
    validated = 0
    val_disagree = []
    if getattr(meta, "VALIDATE", False):
        vs = [(modname, {"name": s["cfg"], **_cfg_by_name(cfgs, s["cfg"])}, s) for s in samples if s.get("validate", True)]
        vs = vs[:int(os.environ.get("TLV_MAX_VALIDATE", "24"))]
        for (m, c, s), r in zip(vs, _run_pool(vs, _validate_worker, a.jobs) if vs else []):
            if r.get("agree"):
                validated += 1
            else:
                val_disagree.append("%s: %s" % (c.get("name"), r))
    wall = time.time() - t0
    # ---- report
    for kid, (k, cfg, v) in sorted(known_hits.items()):
        print("KNOWN-FINDING: property=%s %s" % (pid, k["what"]))
    status = 0
    for path, cfg, v in confirmed:
        print("VIOLATION property=%s replay=%s" % (pid, path))
        print("  config=%s label=%s inputs=%s" % (cfg.get("name"), v["label"], json.dumps(v.get("inputs"))[:600]))
        print("  real-code result: %s" % (json.dumps(v["replay_result"], default=str)[:600]))
        status = 1
    if status == 0:
        problems = []
        if errors:
            problems += ["harness error: " + e for e in errors]
        if inconclusive:
            problems += ["inconclusive: " + e for e in inconclusive[:10]]
        if unconfirmed:
            problems += [("the replay of a counterexample raised (harness error): %s %s -> %s" % (c.get("name"), json.dumps(v)[:200], str(r.get("error", "")).strip().splitlines()[-1:] ))
                         if isinstance(r, dict) and r.get("error") else
                         "counterexample did not reproduce on the real code (model or stub wrong): %s %s -> %s" % (
                c.get("name"), json.dumps(v)[:300], json.dumps(r, default=str)[:300]) for c, v, r in unconfirmed[:5]]
        if unreached:
            problems += ["assertion site never reached (vacuity): " + s for s in unreached]
        if unreplayed:
            problems.append("%d counterexamples were not replayed (cap)" % unreplayed)
        if val_disagree:
            problems += ["model validation disagreement: " + s for s in val_disagree[:5]]
        if agg["paths"] == 0 and not getattr(meta, "NO_PATHS_OK", False):
            problems.append("no feasible path explored")
        if problems:
            for p in problems:
                print("INCONCLUSIVE property=%s %s" % (pid, p[:1500]))
            status = 3
    if not a.no_evidence:
        ev = {
            "property_id": pid, "tier": a.tier, "seed": seed, "level": "model_checking",
            "coverage": {
                "states": agg["paths"], "transitions": agg["decisions"],
                "traces_validated_against_impl": validated,
                "samples": samples[:6] if samples else [{"note": "no sample recorded"}],
                "exhaustive": bool(getattr(meta, "EXHAUSTIVE", False)),
                "configurations": len(cfgs),
                "solver_queries": agg["queries"], "solver_seconds": round(agg["solver_s"], 2),
                "assertions_evaluated": agg["checks"], "assertion_sites": sites,
                "realised_paths": agg["realised"], "solver_unknown": agg["unknown"], "width_exceeded": agg["width_exceeded"],
                "second_solver": {"solver": "z3 4.8.12 binary on the SMT-LIB2 print of sampled 'assertion holds' queries",
                                  "agree_unsat": agg["xcheck_agree"], "timeout_or_unknown": agg["xcheck_unknown"],
                                  "seconds": round(agg["xcheck_s"], 2), "disagreements_or_rejected": agg["xcheck_disagree"]},
                "bounds": meta.bounds(a.tier) if hasattr(meta, "bounds") else {},
                "functions_executed_in_repo": sorted(covered),
                "stubs_and_models": getattr(meta, "MODELS", []),
                "known_findings_hit": sorted(known_hits),
                "counterexamples_replayed": len(todo), "counterexamples_reproduced": len(confirmed) + len(known_hits),
                "extra": extra,
                "status": {0: "held", 1: "violation", 3: "inconclusive"}[status],
            },
            "assumptions": getattr(meta, "ASSUMPTIONS", []),
            "wall_s": round(wall, 2),
            "violations": len(confirmed),
        }
        os.makedirs(EVIDENCE_DIR, exist_ok=True)
        json.dump(ev, open(os.path.join(EVIDENCE_DIR, pid + ".json"), "w"), indent=1, default=str)
    print("%s tier=%s configs=%d paths=%d decisions=%d queries=%d solver=%.1fs wall=%.1fs known=%d violations=%d status=%s" % (
        pid, a.tier, len(cfgs), agg["paths"], agg["decisions"], agg["queries"], agg["solver_s"], wall, len(known_hits),
        len(confirmed), {0: "HELD", 1: "VIOLATION", 3: "INCONCLUSIVE"}[status]))
    return status


def _cfg_by_name(cfgs, name):
    for c in cfgs:
        if c.get("name") == name:
            return c
    return {}


def _run_pool(jobs, fn, nproc):
    if not jobs:
        return []
    nproc = max(1, min(nproc, len(jobs)))
    ctxm = mp.get_context("fork")
    # maxtasksperchild=1: every configuration runs in a fresh interpreter state (fresh imports of /repo)
    with ctxm.Pool(nproc, maxtasksperchild=1) as pool:
        return pool.map(fn, jobs, chunksize=1)


if __name__ == "__main__":
    sys.exit(main())
