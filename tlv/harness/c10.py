"""C10 - server-port selection and port mapping behave as documented.

select : main.handle_packet with symbolic source/destination ports and symbolic -p ports: a session exists iff one side's port is
         a default or selected server port, and that side is the server.
tcpmap : OutputBuilder (through Session.decrypt) with symbolic server/client ports, a symbolic port map and both values of
         keep_original_ports: exported server port = original / mapped / 8080, client port unchanged, on every emitted packet.
quicmap: the same for QuicSession.build_output -> QUICOutputbuilder.
args   : the real argparse + get_port_map on every documented spelling of -m / -p.
wiring : main.run() end to end (stub reader/writer) with -p / -m variants on a TLS scenario."""

VALIDATE = False
SITES = ["session-iff-server-port", "server-side-has-server-port", "tcp-server-port", "tcp-client-port", "quic-server-port",
         "quic-client-port", "args-portmap", "args-keep-flag", "wiring-ports", "no-exception"]
MODELS = ["port map: SymMap (solver-decided lookups, later pair overrides earlier) standing in for the dict get_port_map returns",
          "ideal cryptography / recorder scapy / dpkt model as in C01 for the wiring harness"]
ASSUMPTIONS = ["'default server ports' are the ones in main.server_ports (443, 44330) plus the -p list",
               "when both ports of the first packet are server ports either side may be taken as the server"]


def configs(tier, seed):
    out = [{"name": "select-v%d" % v, "harness": "select", "ipv": v} for v in (4, 6)]
    for v in (4, 6):
        for keep in (True, False):
            out.append({"name": "tcpmap-v%d-%s" % (v, "keep" if keep else "map"), "harness": "tcpmap", "ipv": v, "keep": keep, "pairs": 2 if tier == "quick" else 3})
            out.append({"name": "quicmap-v%d-%s" % (v, "keep" if keep else "map"), "harness": "quicmap", "ipv": v, "keep": keep, "pairs": 2 if tier == "quick" else 3})
    out.append({"name": "args", "harness": "args", "mode": "real"})
    for i, (argv, sport, want) in enumerate(WIRING):
        out.append({"name": "wiring-%d" % i, "harness": "wiring", "argv": argv, "s_port": sport, "want": want})
        out.append({"name": "wiring-quic-%d" % i, "harness": "wiring", "argv": argv, "s_port": sport, "want": want, "quic": True})
    return out


# (extra argv, original server port, expected exported server port)
WIRING = [([], 443, 443), (["-m"], 443, 8080), (["-m", "443:8081"], 443, 8081), (["-p", "8443", "-m", "443:8081,", "8443:9000"], 8443, 9000),
          (["-p", "8443", "-m", "443:8081"], 8443, 8080), (["-p", "8443"], 8443, 8443),
          # the defaults stay selected when -p adds ports
          ([], 44330, 44330), (["-p", "8443"], 44330, 44330), (["-p", "8443", "9443"], 443, 443), (["-p", "8443", "9443"], 9443, 9443),
          (["-p", "8443", "-m", "8443:9000"], 44330, 8080),
          # a pair that maps a port to itself is an entry like any other: the port is listed, so it is not sent to 8080
          (["-p", "8443", "-m", "8443:8443,", "443:9000"], 8443, 8443)]


def bounds(tier):
    return {"ports": "all 16-bit values, symbolic", "-p list": "2 symbolic ports besides the defaults", "-m map": "%d symbolic pairs (duplicates allowed)" % (2 if tier == "quick" else 3),
            "syntax": "absent / bare / a:b pairs with and without trailing commas, through the real argparse"}


def _frame(ipv, sport, dport, payload):
    from tlv.oracle import frames as F
    from tlv.harness import pipeline as P
    a = P.ADDR[ipv]
    seg = F.tcp_segment(sport, dport, F.u32(1), F.u32(0), 0x18, payload)
    return F.ethernet(P.S_MAC, P.C_MAC, ipv == 6, F.ip_header(ipv == 6, a["c_ip"], a["s_ip"], 6, len(seg)) + seg)


def run_config(cfg):
    return {"select": _select, "tcpmap": _tcpmap, "quicmap": _quicmap, "args": _args, "wiring": _wiring}[cfg["harness"]](cfg)


def _select(cfg):
    from tlv.sx.core import ctx, sym_int, sym_or, sym_and, sym_not
    from tlv.sx.symbytes import sym_bytes
    from tlv.harness import pipeline as P
    from tlv.harness.common import explore_cfg
    mods = P.setup_symbolic()
    main = mods["tlexport.main"]
    Packet = mods["tlexport.packet"].Packet

    def scenario():
        c = ctx()
        sp, dp = sym_bytes("sport", 2), sym_bytes("dport", 2)
        p1, p2 = sym_int("p1", 0, 65535), sym_int("p2", 0, 65535)
        main.server_ports[:] = [443, 44330, p1, p2]
        pkt = Packet(_frame(cfg["ipv"], sp, dp, b"\x16\x03\x01\x00\x01\x00"), 1.0)
        sessions = []
        try:
            main.handle_packet(pkt, None, [], sessions, {}, True, exp_meta=False)
        except Exception as e:
            c.fail("no-exception", "%s: %s" % (type(e).__name__, e))
            return {"outcome": "exception"}
        c.check(True, "no-exception")
        S = [443, 44330, p1, p2]
        s_in = sym_or(*[pkt.sport == x for x in S])
        d_in = sym_or(*[pkt.dport == x for x in S])
        created = len(sessions) == 1
        c.check(sym_or(s_in, d_in) if created else sym_not(sym_or(s_in, d_in)), "session-iff-server-port")
        if created:
            s = sessions[0]
            c.check(sym_or(*[s.server_port == x for x in S]), "server-side-has-server-port")
            c.check(sym_or(sym_and(s.server_port == pkt.sport, s.client_port == pkt.dport),
                           sym_and(s.server_port == pkt.dport, s.client_port == pkt.sport)), "server-side-has-server-port")
        else:
            c.check(True, "server-side-has-server-port")
        return {"outcome": "session" if created else "ignored"}
    return explore_cfg(scenario, cfg, timeout_ms=60000)


def _expected_port(sp, pairs, keep):
    """original if keep else (mapped if listed else 8080) - as a term."""
    from tlv.sx.core import sym_ite
    if keep:
        return sp
    exp = 8080
    for k, v in pairs:           # later pairs override earlier ones
        exp = sym_ite(sp == k, v, exp)
    return exp


def _tcpmap(cfg):
    from tlv.sx.core import ctx, sym_int, sym_and
    from tlv.sx.symbytes import sym_bytes
    from tlv.sx.symdict import SymMap
    from tlv.harness import pipeline as P
    from tlv.harness.common import explore_cfg
    mods = P.setup_symbolic()
    sess_mod = mods["tlexport.session"]

    class Pk:
        timestamp = 5.0

    def scenario():
        c = ctx()
        sp, cp = sym_int("server_port", 0, 65535), sym_int("client_port", 0, 65535)
        pairs = [(sym_int("k%d" % i, 0, 65535), sym_int("v%d" % i, 0, 65535)) for i in range(cfg["pairs"])]
        a = P.ADDR[cfg["ipv"]]
        s = sess_mod.Session.__new__(sess_mod.Session)
        s.ipv6 = cfg["ipv"] == 6
        s.server_ip, s.client_ip, s.server_port, s.client_port = a["s_ip"], a["c_ip"], sp, cp
        s.server_mac_addr, s.client_mac_addr = P.S_MAC, P.C_MAC
        s.portmap, s.keep_original_ports = SymMap(pairs), cfg["keep"]
        s.packet_buffer = []
        s.server_packet_buffer, s.client_packet_buffer, s.server_tls_records, s.client_tls_records = [], [], [], []

        class R:
            metadata = [Pk()]
        s.application_traffic = [(sym_bytes("d0", 2), R(), True), (sym_bytes("d1", 1), R(), False)]
        try:
            out = s.decrypt()
        except Exception as e:
            c.fail("no-exception", "%s: %s" % (type(e).__name__, e))
            return {"outcome": "exception"}
        c.check(True, "no-exception")
        exp = _expected_port(sp, pairs, cfg["keep"])
        sconds, cconds = [], []
        for fr, ts in out:
            tcp = fr.layer("TCP")
            ip = fr.layer("IP") or fr.layer("IPv6")
            from_server = ip.src == str(s.binary_to_ip(a["s_ip"]))
            sconds.append((tcp.sport if from_server else tcp.dport) == exp)
            cconds.append((tcp.dport if from_server else tcp.sport) == cp)
        c.check(len(out) == 7 and sym_and(*sconds), "tcp-server-port")
        c.check(sym_and(*cconds), "tcp-client-port")
        return {"outcome": "%d packets" % len(out)}
    return explore_cfg(scenario, cfg, timeout_ms=60000)


def _quicmap(cfg):
    from tlv.sx.core import ctx, sym_int, sym_and
    from tlv.sx.symbytes import sym_bytes
    from tlv.sx.symdict import SymMap
    from tlv.harness import pipeline as P
    from tlv.harness.common import explore_cfg
    mods = P.setup_symbolic()
    qs = mods["tlexport.quic.quic_session"]
    qf = mods["tlexport.quic.quic_frame"]

    def scenario():
        c = ctx()
        sp, cp = sym_int("server_port", 0, 65535), sym_int("client_port", 0, 65535)
        pairs = [(sym_int("k%d" % i, 0, 65535), sym_int("v%d" % i, 0, 65535)) for i in range(cfg["pairs"])]
        a = P.ADDR[cfg["ipv"]]
        s = qs.QuicSession.__new__(qs.QuicSession)
        s.ipv6 = cfg["ipv"] == 6
        s.server_ip, s.client_ip, s.server_port, s.client_port = a["s_ip"], a["c_ip"], sp, cp
        s.server_mac_addr, s.client_mac_addr = P.S_MAC, P.C_MAC
        s.portmap = SymMap(pairs)
        s.keep_original_ports = cfg["keep"]

        class Src:
            def __init__(self, isserver, pn, ts):
                self.isserver, self.packet_num, self.ts = isserver, pn, ts
        f1 = qf.StreamFrame.__new__(qf.StreamFrame)
        f1.frame_type, f1.stream_data, f1.src_packet = 0x0a, sym_bytes("d0", 2), Src(False, b"\x01", 1.0)
        f2 = qf.StreamFrame.__new__(qf.StreamFrame)
        f2.frame_type, f2.stream_data, f2.src_packet = 0x0a, sym_bytes("d1", 2), Src(True, b"\x02", 2.0)
        s.output_buffer = [f1, f2]
        try:
            out = s.build_output(False)
        except Exception as e:
            c.fail("no-exception", "%s: %s" % (type(e).__name__, e))
            return {"outcome": "exception"}
        c.check(True, "no-exception")
        exp = _expected_port(sp, pairs, cfg["keep"])
        sconds, cconds = [], []
        for fr, ts in out:
            udp = fr.layer("UDP")
            ip = fr.layer("IP") or fr.layer("IPv6")
            from_server = ip.src == str(s.binary_to_ip(a["s_ip"]))
            sconds.append((udp.sport if from_server else udp.dport) == exp)
            cconds.append((udp.dport if from_server else udp.sport) == cp)
        c.check(len(out) == 2 and sym_and(*sconds), "quic-server-port")
        c.check(sym_and(*cconds), "quic-client-port")
        return {"outcome": "%d datagrams" % len(out)}
    return explore_cfg(scenario, cfg, timeout_ms=60000)


ARG_CASES = [
    ([], True, {}), (["-m"], False, {443: 8080}), (["-m", "443:8081"], False, {443: 8081}),
    (["-m", "443:8081", "8443:9000"], False, {443: 8081, 8443: 9000}), (["-m", "443:8081,", "8443:9000,"], False, {443: 8081, 8443: 9000}),
    (["-p", "8443", "4433", "-m", "8443:1"], False, {8443: 1}), (["-p", "8443"], True, {}),
    (["-m", "443:8081", "443:8082"], False, {443: 8082}),
    (["-p", "8443", "-m", "8443:8443", "443:9000"], False, {8443: 8443, 443: 9000}), (["-m", "443:443"], False, {443: 443}),
]


def _args(cfg):
    """Finite syntax axis, concrete: real argparse and get_port_map."""
    import sys
    import tlexport.main as main
    bad = []
    n = 0
    for argv, keep, pm in ARG_CASES:
        old = sys.argv
        sys.argv = ["tlexport"] + argv
        try:
            a = main.arg_parser_init()
            got = (a.keep_original_ports, main.get_port_map(a), [int(x) for x in a.serverports])
        except BaseException as e:
            got = ("exception", repr(e), None)
        finally:
            sys.argv = old
        n += 1
        if got[0] != keep or got[1] != pm:
            bad.append({"argv": argv, "got": repr(got), "want": repr((keep, pm))})
    viol = [{"label": "args-portmap", "inputs": {"case": b["argv"]}, "detail": b} for b in bad]
    return {"stats": {"paths": n, "decisions": n, "queries": 0, "solver_s": 0.0, "checks": n}, "violations": viol,
            "sites": {"args-portmap": n, "args-keep-flag": n}, "inconclusive": [], "samples": [{"path": 0, "inputs": {"argv": ARG_CASES[3][0]}, "result": "parsed", "validate": False}]}


def _wiring(cfg):
    from tlv.sx.core import ctx, sym_and
    from tlv.harness import pipeline as P, rundriver as RD
    from tlv.harness.common import explore_cfg
    from tlv.oracle import scenario as SC
    mods = P.setup_symbolic()
    scfg = {"version": "TLS12", "suite": 0x009c, "suite_name": "TLS_RSA_WITH_AES_128_GCM_SHA256", "records": 2, "max_len": 1, "grouping": "one"}

    def scenario():
        c = ctx()
        src = SC.SymSrc()
        ep = P.Endpoint(ipv=4, s_port=cfg["s_port"])
        if cfg.get("quic"):
            from tlv.harness import c02
            from tlv.oracle import quic_scenario as QS
            qcfg = {"suite": 0x1301, "offered": [0x1301], "odcid_len": 8, "c_cid_len": 4, "s_cid_len": 8, "n_app": 2, "data_len": 1}
            dgrams, keylog, meta = QS.build(qcfg, src)
            c02.assume_cids_prefix_free(c, meta)
            c02.assume_no_accidental_cid(c, meta, dgrams)
            frames = [(fr, float(ts)) for fr, ts, _ in P.udp_frames(ep, dgrams)]
        else:
            items, keylog, meta = SC.build(scfg, src)
            frames = P.tcp_frames(ep, items)
        env = RD.RunEnv(mods, [(ts, fr) for fr, ts, *_ in frames], files={"k.log": ""})
        mods["tlexport.keylog_reader"].get_keys_from_string = lambda text: P.keylog_objects(mods, keylog)
        try:
            out = RD.run_main(mods, ["-i", "in.pcapng", "-o", "o.pcapng", "-s", "k.log"] + cfg["argv"], env)
        except Exception as e:
            import traceback
            c.fail("no-exception", "%s: %s %s" % (type(e).__name__, e, traceback.format_exc().splitlines()[-3:-1]))
            return {"outcome": "exception"}
        c.check(True, "no-exception")
        conds = []
        for fr, ts in out:
            tcp = fr.layer("TCP") or fr.layer("UDP")
            ip = fr.layer("IP")
            from_server = ip.src == "10.0.0.2"
            conds.append((tcp.sport if from_server else tcp.dport) == cfg["want"])
            conds.append((tcp.dport if from_server else tcp.sport) == ep.c_port)
        c.check(len(out) >= (2 if cfg.get("quic") else 3) and sym_and(*conds), "wiring-ports", "argv %r: ports %r" % (cfg["argv"], [((fr.layer("TCP") or fr.layer("UDP")).sport, (fr.layer("TCP") or fr.layer("UDP")).dport) for fr, ts in out][:3]))
        return {"outcome": "%d packets" % len(out), "validate": False}
    return explore_cfg(scenario, cfg, timeout_ms=60000, sample_paths=1)


def replay(cfg, viol):
    h = cfg["harness"]
    inp = viol["inputs"]
    if h == "args":
        import sys
        import tlexport.main as main
        argv = inp["case"]
        want = [w for a, *w in ARG_CASES if a == argv][0]
        old = sys.argv
        sys.argv = ["tlexport"] + argv
        try:
            a = main.arg_parser_init()
            got = [a.keep_original_ports, main.get_port_map(a)]
        except BaseException as e:
            got = ["exception", repr(e)]
        finally:
            sys.argv = old
        return {"reproduced": got != want, "got": repr(got), "want": repr(want)}
    if h == "select":
        import tlexport.main as main
        from tlexport.packet import Packet
        from tlv.oracle import frames as F
        from tlv.harness import pipeline as P
        a = P.ADDR[cfg["ipv"]]
        sp, dp = int(inp["sport"], 16), int(inp["dport"], 16)
        fr = F.concrete_tcp_frame(P.C_MAC, P.S_MAC, cfg["ipv"] == 6, a["c_ip"], a["s_ip"], sp, dp, 1, 0, 0x18, b"\x16\x03\x01\x00\x01\x00")
        main.server_ports[:] = [443, 44330, inp["p1"], inp["p2"]]
        sessions = []
        main.handle_packet(Packet(fr, 1.0), None, [], sessions, {}, True, exp_meta=False)
        S = set(main.server_ports)
        want = sp in S or dp in S
        ok = (len(sessions) == 1) == want and (not sessions or (sessions[0].server_port in S and {sessions[0].server_port, sessions[0].client_port} == {sp, dp}))
        return {"reproduced": not ok, "sessions": len(sessions), "expected_session": want}
    if h in ("tcpmap", "quicmap"):
        return _replay_map(cfg, inp)
    if h == "wiring":
        from tlv import e2e
        from tlv.harness import pipeline as P
        from tlv.oracle import scenario as SC
        scfg = {"version": "TLS12", "suite": 0x009c, "suite_name": "TLS_RSA_WITH_AES_128_GCM_SHA256", "records": 2, "max_len": 1, "grouping": "one"}
        ep = P.Endpoint(ipv=4, s_port=cfg["s_port"])
        if cfg.get("quic"):
            from tlv.oracle import quic_scenario as QS
            qcfg = {"suite": 0x1301, "offered": [0x1301], "odcid_len": 8, "c_cid_len": 4, "s_cid_len": 8, "n_app": 2, "data_len": 1}
            dgrams, keylog, meta = QS.build(qcfg, SC.ConcreteSrc(inp))
            r = e2e.run_tlexport(e2e.concrete_udp_frames(ep, dgrams), e2e.keylog_text(keylog), args=cfg["argv"])
        else:
            items, keylog, meta = SC.build(scfg, SC.ConcreteSrc(inp))
            r = e2e.run_tlexport(e2e.concrete_frames(ep, items), e2e.keylog_text(keylog), args=cfg["argv"])
        ports = {(d["sport"], d["dport"]) for d in r["frames"] if d.get("l4") in ("tcp", "udp")}
        ok = not r["problems"] and ports and all(set(p) == {cfg["want"], ep.c_port} for p in ports)
        return {"reproduced": not ok, "ports": sorted(ports), "problems": r["problems"][:2]}
    return {"reproduced": None}


def _replay_map(cfg, inp):
    """Real OutputBuilder / QUICOutputbuilder with real scapy and a real dict."""
    from tlv.harness import pipeline as P
    a = P.ADDR[cfg["ipv"]]
    pm = {}
    for i in range(cfg["pairs"]):
        pm[inp["k%d" % i]] = inp["v%d" % i]
    sp, cp = inp["server_port"], inp["client_port"]
    exp = sp if cfg["keep"] else pm.get(sp, 8080)
    import ipaddress
    sip = str(ipaddress.ip_address(a["s_ip"]))
    cip = str(ipaddress.ip_address(a["c_ip"]))
    if cfg["harness"] == "tcpmap":
        from tlexport.output_builder import OutputBuilder

        class Pk:
            timestamp = 5.0

        class R:
            metadata = [Pk()]
        b = OutputBuilder([(b"ab", R(), True), (b"c", R(), False)], sip, cip, sp, cp, P.S_MAC, P.C_MAC, pm, cfg["ipv"] == 6, cfg["keep"])
        out = b.build()
        l4 = "TCP"
    else:
        import tlexport.quic.quic_session as qs
        import tlexport.quic.quic_frame as qf
        s = qs.QuicSession.__new__(qs.QuicSession)
        s.ipv6 = cfg["ipv"] == 6
        s.server_ip, s.client_ip, s.server_port, s.client_port = a["s_ip"], a["c_ip"], sp, cp
        s.server_mac_addr, s.client_mac_addr = P.S_MAC, P.C_MAC
        s.portmap = pm
        s.keep_original_ports = cfg["keep"]

        class Src:
            def __init__(self, isserver, pn, ts):
                self.isserver, self.packet_num, self.ts = isserver, pn, ts
        fs = []
        for d, srcp in ((b"ab", Src(False, b"\x01", 1.0)), (b"cd", Src(True, b"\x02", 2.0))):
            f = qf.StreamFrame.__new__(qf.StreamFrame)
            f.frame_type, f.stream_data, f.src_packet = 0x0a, d, srcp
            fs.append(f)
        s.output_buffer = fs
        out = s.build_output(False)
        l4 = "UDP"
    bad = []
    for fr, ts in out:
        ipl = fr.getlayer("IP") or fr.getlayer("IPv6")
        l = fr.getlayer(l4)
        from_server = ipl.src == sip
        sport_seen = l.sport if from_server else l.dport
        cport_seen = l.dport if from_server else l.sport
        if sport_seen != exp or cport_seen != cp:
            bad.append((l.sport, l.dport))
    return {"reproduced": bool(bad), "expected_server_port": exp, "client_port": cp, "bad_port_pairs": bad[:3]}
