"""C14 - every cipher-suite code point resolves to the parameters its IANA name denotes.

split_cipher_suite runs on a symbolic two-byte id; the table lookup is decided by the solver (one path per table entry plus one
path for 'not in the table'), so all 65 536 code points are covered."""
import subprocess

EXHAUSTIVE = True
VALIDATE = True
SITES = ["name-is-iana-name", "parameters-match-name", "outside-table-unsupported", "no-exception"]
MODELS = ["cipher_suite_parser.cipher_suites wrapped in SymDict (solver-decided lookup); real cryptography classes"]
ASSUMPTIONS = ["the frozen registry copy spec/iana_tls_cipher_suites.json (scapy 2.7.0 table + RFC 6655/8442/8492), cross-checked "
               "against `openssl ciphers -stdname` on every run",
               "CCM suites without a hash suffix use the SHA-256 PRF (RFC 6655)"]


def configs(tier, seed):
    return [{"name": "all-code-points", "harness": "table", "mode": "real"}]


def bounds(tier):
    return {"code points": "all 65536 (symbolic 16-bit id)", "outside": "nothing"}


def _expected(name):
    """Expected TLExport result dict (as comparable plain values) from the independent name parser."""
    from tlv.oracle import suites
    p = suites.parse_name(name)
    if p is None:
        return None
    algo = {("AES", "CBC"): "AES", ("AES", "GCM"): "AESGCM", ("AES", "CCM"): "AESCCM", ("CAMELLIA", "CBC"): "Camellia",
            ("3DES", "CBC"): "TripleDES", ("IDEA", "CBC"): "IDEA", ("RC4", "STREAM"): "ARC4",
            ("CHACHA20", "POLY1305"): "ChaCha20Poly1305"}.get((p["algorithm"], p["mode"]))
    return {"algo": algo, "aead": 1 if p["aead"] else 0, "key_len": p["key_len"], "hash": p["hash"],
            "tag_len": p["tag_len"] if p["aead"] else 16, "mode_aead": 1 if p["aead"] else 0,
            "mode": {"CBC": "CBC", "GCM": "GCM", "CCM": "AESCCM", "POLY1305": "ChaCha20Poly1305", "STREAM": None}[p["mode"]]}


def _observed(cs):
    def nm(x):
        return None if x is None else x.__name__
    return {"algo": nm(cs["CryptoAlgo"][0]), "aead": cs["CryptoAlgo"][1], "key_len": cs["KeyLength"],
            "hash": {"SHA1": "SHA1", "SHA256": "SHA256", "SHA384": "SHA384", "MD5": "MD5"}.get(cs["MAC"].__name__, cs["MAC"].__name__),
            "tag_len": cs["TagLength"], "mode": nm(cs["Mode"][0]), "mode_aead": cs["Mode"][1]}


def _openssl_crosscheck(reg):
    try:
        out = subprocess.run(["openssl", "ciphers", "-stdname", "-V", "ALL:COMPLEMENTOFALL:@SECLEVEL=0"], capture_output=True, text=True,
                             timeout=20).stdout
    except Exception:
        return {"openssl": "unavailable"}
    bad, n, added = [], 0, 0
    for line in out.splitlines():
        parts = line.split()
        if len(parts) >= 3 and "," in parts[0] and parts[2].startswith("TLS_"):
            hi, lo = parts[0].split(",")
            code = (int(hi, 16) << 8) | int(lo, 16)
            n += 1
            if code not in reg:
                reg[code] = parts[2]    # the frozen copy is not the complete registry; openssl is a second independent source
                added += 1
            elif reg[code] != parts[2]:
                bad.append((hex(code), parts[2], reg.get(code)))
    return {"openssl_suites_compared": n, "openssl_suites_added_to_registry": added, "openssl_disagreements": bad}


def run_config(cfg):
    from tlv.sx import shims
    from tlv.sx.core import ctx
    from tlv.sx.symbytes import sym_bytes
    from tlv.sx.symdict import SymDict
    from tlv.harness.common import explore_cfg
    from tlv.oracle import suites
    import tlexport.cipher_suite_parser as csp
    shims.install(csp)
    # every module-level table keyed by byte strings gets a solver-decided lookup (the suite table, and whatever other table a
    # lookup of the id may go through)
    for gname, gval in list(vars(csp).items()):
        if isinstance(gval, dict) and not isinstance(gval, SymDict) and gval and all(isinstance(k, (bytes, bytearray)) for k in gval):
            setattr(csp, gname, SymDict(gval))
    reg = suites.registry()
    xc = _openssl_crosscheck(reg)
    if xc.get("openssl_disagreements"):
        raise RuntimeError("frozen registry disagrees with openssl: %r" % xc["openssl_disagreements"][:5])
    table = {int.from_bytes(k, "big"): v for k, v in dict.items(csp.cipher_suites)}

    def scenario():
        c = ctx()
        sid = sym_bytes("suite_id", 2)
        try:
            cs = csp.split_cipher_suite(sid)
        except Exception as e:
            c.fail("no-exception", "%s: %s" % (type(e).__name__, e))
            return {"outcome": "exception"}
        c.check(True, "no-exception")
        if cs is None:
            # must be exactly the ids outside the table: no table id is feasible on this path
            from tlv.sx.core import sym_or
            c.check(~sym_or(*[sid == k.to_bytes(2, "big") for k in table]) if table else True, "outside-table-unsupported")
            return {"outcome": "unsupported"}
        code = int.from_bytes(sid.concrete(), "big")   # the path fixed the id
        if code not in table:
            c.fail("outside-table-unsupported", "code %04x is not in the table but was resolved (to %r)" % (code, _observed(cs)))
            return {"outcome": "resolved outside the table"}
        name = table[code]
        c.check(reg.get(code) == name, "name-is-iana-name", "code %04x: table name %s, registry %s" % (code, name, reg.get(code)))
        exp = _expected(reg.get(code, name))
        obs = _observed(cs)
        c.check(exp is not None and obs == exp, "parameters-match-name", "code %04x %s: resolved %r, name denotes %r" % (code, name, obs, exp))
        return {"outcome": "%04x %s" % (code, name)}
    r = explore_cfg(scenario, cfg, timeout_ms=60000, sample_paths=4)
    r["extra"] = {k: v for k, v in xc.items() if isinstance(v, int)}
    return r


def _concrete(cfg, inp):
    import tlexport.cipher_suite_parser as csp
    from tlv.oracle import suites
    reg = suites.registry()
    sid = bytes.fromhex(inp["suite_id"])
    code = int.from_bytes(sid, "big")
    try:
        cs = csp.split_cipher_suite(sid)
    except Exception as e:
        return {"ok": False, "why": "exception %r" % (e,)}
    if sid not in csp.cipher_suites:
        return {"ok": cs is None, "why": "outside the table -> %r" % (cs,)}
    name = csp.cipher_suites[sid]
    exp = _expected(reg.get(code, name))
    ok = cs is not None and reg.get(code) == name and exp is not None and _observed(cs) == exp
    return {"ok": ok, "code": "%04x" % code, "table_name": name, "registry_name": reg.get(code), "resolved": _observed(cs) if cs else None,
            "name_denotes": exp}


def replay(cfg, viol):
    r = _concrete(cfg, viol["inputs"])
    return {"reproduced": not r["ok"], **r}


def validate(cfg, sample):
    r = _concrete(cfg, sample["inputs"])
    return {"agree": r["ok"], **r}
