"""Shared TLS-over-TCP pipeline driver: reference endpoints -> frames -> real Packet -> main.handle_packet -> Session.decrypt
-> (recorder) output frames.  Used by C01, C03, C04, C07, C08, C13, C15."""
import sys

TLEXPORT_MODULES = ["tlexport.packet", "tlexport.tlsrecord", "tlexport.session", "tlexport.decryptor", "tlexport.key_derivator",
                    "tlexport.cipher_suite_parser", "tlexport.output_builder", "tlexport.main", "tlexport.keylog_reader",
                    "tlexport.checksums", "tlexport.quic.quic_session", "tlexport.quic.quic_dissector", "tlexport.quic.quic_frame",
                    "tlexport.quic.quic_decode", "tlexport.quic.quic_decryptor", "tlexport.quic.quic_key_generation",
                    "tlexport.quic.quic_tls_parser", "tlexport.quic.quic_output_builder", "tlexport.quic.quic_packet"]


def setup_symbolic(fresh=False):
    """Import the repository unmodified and inject the shims / models (stub mode).  fresh: import new module objects (the state of a
    new process: module globals, caches) although the package was imported before."""
    import importlib
    import sys
    from tlv.sx import shims
    from tlv.models import dpkt_model, sched_model
    if fresh:
        for k in [k for k in sys.modules if k == "tlexport" or k.startswith("tlexport.")]:
            del sys.modules[k]
    mods = {}
    for name in TLEXPORT_MODULES:
        m = importlib.import_module(name)
        shims.install(m)
        shims.install_addr_shims(m)
        sched_model.install(m)
        mods[name] = m
    mods["tlexport.packet"].dpkt = dpkt_model.namespace()
    _track_module_state(mods)
    return mods


_STATE = []          # (module, name, kind, snapshot) of mutable module-level state of the code under test


def _track_module_state(mods):
    """Module-level containers of the code under test are program state: they are put back to their import-time content at the start of
    every path (the explorer re-executes the scenario per path and relies on it being a function of its decisions), and dicts that
    are empty at import time (caches, registries) get solver-decided lookups (SymKeyDict)."""
    import types
    from tlv.sx.symdict import SymKeyDict, SymDict
    from tlv.harness import common
    del _STATE[:]
    for m in mods.values():
        for name, val in list(vars(m).items()):
            if name.startswith("__") or isinstance(val, (types.ModuleType, type, types.FunctionType, SymDict)):
                if isinstance(val, types.FunctionType) and hasattr(val, "cache_clear"):
                    _STATE.append((m, name, "lru", None))
                continue
            if hasattr(val, "cache_clear") and callable(val):
                _STATE.append((m, name, "lru", None))
            elif type(val) is dict and not val:
                setattr(m, name, SymKeyDict())
                _STATE.append((m, name, "symkeydict", None))
            elif type(val) in (dict, list, set):
                _STATE.append((m, name, type(val).__name__, type(val)(val)))
    if reset_module_state not in common.PATH_RESET_HOOKS:
        common.PATH_RESET_HOOKS.append(reset_module_state)


def reset_module_state():
    for m, name, kind, snap in _STATE:
        cur = getattr(m, name, None)
        if kind == "lru":
            if hasattr(cur, "cache_clear"):
                cur.cache_clear()
        elif kind == "symkeydict":
            if hasattr(cur, "clear"):
                cur.clear()
        elif kind == "list" and isinstance(cur, list):
            cur[:] = snap
        elif kind == "dict" and type(cur) is dict:
            cur.clear()
            cur.update(snap)
        elif kind == "set" and isinstance(cur, set):
            cur.clear()
            cur.update(snap)


ADDR = {
    4: {"c_ip": b"\x0a\x00\x00\x01", "s_ip": b"\x0a\x00\x00\x02"},
    6: {"c_ip": bytes.fromhex("20010db8000000000000000000000001"), "s_ip": bytes.fromhex("20010db8000000000000000000000002")},
}
C_MAC, S_MAC = b"\x02\x00\x00\x00\x00\x01", b"\x02\x00\x00\x00\x00\x02"


class Endpoint:
    def __init__(self, ipv=4, c_port=50000, s_port=443, c_ip=None, s_ip=None, c_mac=C_MAC, s_mac=S_MAC, isn_c=1000, isn_s=5000):
        self.ipv = ipv
        self.c_ip = c_ip or ADDR[ipv]["c_ip"]
        self.s_ip = s_ip or ADDR[ipv]["s_ip"]
        self.c_port, self.s_port, self.c_mac, self.s_mac = c_port, s_port, c_mac, s_mac
        self.seq = {False: isn_c, True: isn_s}


def tcp_frames(ep, items, t0=100.0, dt=1.0, group=None, seg_size=None):
    """One TCP segment per item (or per group of items; or items cut into seg_size-byte segments):
    -> list of (frame, ts, from_server, item indices)."""
    from tlv.oracle import frames as F
    out = []
    groups = group or [[i] for i in range(len(items))]
    t = t0
    for g in groups:
        from_server = items[g[0]].from_server
        data = items[g[0]].data
        for i in g[1:]:
            assert items[i].from_server == from_server
            data = data + items[i].data
        src = (ep.s_ip, ep.s_port, ep.s_mac) if from_server else (ep.c_ip, ep.c_port, ep.c_mac)
        dst = (ep.c_ip, ep.c_port, ep.c_mac) if from_server else (ep.s_ip, ep.s_port, ep.s_mac)
        pieces = [data] if not seg_size else [data[k:k + seg_size] for k in range(0, len(data), seg_size)]
        for piece in pieces:
            seq = ep.seq[from_server]
            ep.seq[from_server] = seq + len(piece)
            seg = F.tcp_segment(F.u16(src[1]), F.u16(dst[1]), F.u32(seq & 0xFFFFFFFF), F.u32(0), 0x18, piece)
            frame = F.ethernet(dst[2], src[2], ep.ipv == 6, F.ip_header(ep.ipv == 6, src[0], dst[0], 6, len(seg)) + seg)
            out.append((frame, t, from_server, list(g)))
            t += dt
    return out


def clock_step_positions(n):
    return sorted(set(list(range(1, n, max(1, n // 4))) + [n - 2, n - 1]) & set(range(1, n)))


def clock_step(frames, k, back=1000.0):
    """the capture clock is set back before packet k (NTP step, concatenated captures): capture order unchanged, times not monotonic"""
    return [f if i < k else (f[0], f[1] - back) + tuple(f[2:]) for i, f in enumerate(frames)]


def stream_groups(items):
    """consecutive items of one direction form one byte stream (to be cut into segments without regard to record boundaries)"""
    groups = []
    for k, it in enumerate(items):
        if groups and items[groups[-1][0]].from_server == it.from_server:
            groups[-1].append(k)
        else:
            groups.append([k])
    return groups


def keylog_objects(mods, keylog):
    """keylog_reader.Key objects whose hex fields are symbolic text proxies."""
    from tlv.sx.symbytes import SymHex, as_symbytes
    K = mods["tlexport.keylog_reader"].Key
    out = []
    for label, cr, secret in keylog:
        k = K.__new__(K)
        k.label = label
        k.client_random = SymHex(as_symbytes(cr)) if not isinstance(cr, (bytes, bytearray)) else bytes(cr).hex()
        k.value = SymHex(as_symbytes(secret)) if not isinstance(secret, (bytes, bytearray)) else bytes(secret).hex()
        out.append(k)
    return out


def run_program(mods, frames, keylog_objs, argv_extra=()):
    """The real main.run() on the frames (capture reader, key-log file and writer are the stubs of rundriver): -> (writer calls,
    TLS sessions, QUIC sessions).  Everything between reading a packet and writing the export is the program's own code."""
    from tlv.harness import rundriver as RD
    blocks = [(f[1], f[0]) for f in frames]
    mods["tlexport.keylog_reader"].get_keys_from_string = lambda text: list(keylog_objs)
    env = RD.RunEnv(mods, blocks, files={"k.log": ""})
    out = RD.run_main(mods, ["-i", "in.pcapng", "-o", "o.pcapng", "-s", "k.log"] + list(argv_extra), env)
    main = mods["tlexport.main"]
    return out, list(main.sessions), list(main.quic_sessions)


def run_tls(mods, frames, keylog_objs, exp_meta=False):
    """-> (output list, sessions)"""
    out, sessions, _ = run_program(mods, frames, keylog_objs, ["-a"] if exp_meta else [])
    return out, sessions


def tcp_streams(out, ep, server_port=None):
    """Per-direction list of payload chunks of the PA packets of the conversation ep (recorder frames)."""
    sp = ep.s_port if server_port is None else server_port
    res = {True: [], False: []}
    for fr, ts in out:
        tcp = fr.layer("TCP")
        if tcp is None or "P" not in str(tcp.flags):
            continue
        raw = fr.layer("Raw")
        load = raw.load if raw is not None else b""
        if tcp.sport == sp and tcp.dport == ep.c_port:
            res[True].append((load, ts, fr))
        elif tcp.sport == ep.c_port and tcp.dport == sp:
            res[False].append((load, ts, fr))
    return res


def concat(chunks):
    from tlv.sx.symbytes import SymBytes, as_symbytes
    out = SymBytes([])
    for c in chunks:
        out = out + as_symbytes(c)
    return out


def udp_frames(ep, dgrams):
    """-> list of (frame, ts, from_server)"""
    from tlv.oracle import frames as F
    out = []
    for d in dgrams:
        src = (ep.s_ip, ep.s_port, ep.s_mac) if d.from_server else (ep.c_ip, ep.c_port, ep.c_mac)
        dst = (ep.c_ip, ep.c_port, ep.c_mac) if d.from_server else (ep.s_ip, ep.s_port, ep.s_mac)
        seg = F.udp_segment(F.u16(src[1]), F.u16(dst[1]), d.data)
        frame = F.ethernet(dst[2], src[2], ep.ipv == 6, F.ip_header(ep.ipv == 6, src[0], dst[0], 17, len(seg)) + seg)
        out.append((frame, d.ts, d.from_server))
    return out


def run_quic(mods, frames, keylog_objs, metadata=False):
    out, _, quic_sessions = run_program(mods, frames, keylog_objs, ["-a"] if metadata else [])
    return out, quic_sessions


def udp_payloads(out, ep, server_port=None):
    """(from_server, load, ts) of every UDP packet of the conversation, in output order."""
    sp = ep.s_port if server_port is None else server_port
    res = []
    for item in out:
        fr, ts = item
        if not hasattr(fr, "layer"):
            res.append((None, fr, ts))
            continue
        udp = fr.layer("UDP")
        if udp is None:
            continue
        raw = fr.layer("Raw")
        load = raw.load if raw is not None else b""
        if udp.sport == sp and udp.dport == ep.c_port:
            res.append((True, load, ts))
        elif udp.sport == ep.c_port and udp.dport == sp:
            res.append((False, load, ts))
    return res
