"""Shared helpers for harness modules."""
import json
from tlv.sx import core


def result_dict(res, extra=None):
    return {
        "stats": res.stats.as_dict(),
        "violations": [v.as_dict() for v in res.violations],
        "sites": res.sites,
        "inconclusive": res.inconclusive,
        "samples": res.samples,
        "extra": extra or {},
        "notes": {k: (sorted(v) if isinstance(v, (set, frozenset)) else v) for k, v in res.notes.items()},
    }


PATH_RESET_HOOKS = []        # called at the start of every path (state of the code under test back to its initial value)


def explore_cfg(fn, cfg, **kw):
    """Runs the scenario; in witness mode the scenario's return triggers a final `False` assertion."""
    if PATH_RESET_HOOKS:
        body = fn

        def fn():
            for h in PATH_RESET_HOOKS:
                h()
            return body()
    if cfg.get("witness"):
        inner = fn

        def fn():
            r = inner()
            core.ctx().check(False, "witness")
            return r
        kw["max_violations"] = 1
    import os
    # a configuration that does not finish within its budget is inconclusive, never success (a change to the code under test may make the
    # path space explode); violations found until then are still replayed and reported
    kw.setdefault("max_seconds", float(os.environ.get("TLV_CONFIG_SECONDS", "900" if os.environ.get("TLV_TIER", "quick") == "quick" else "5400")))
    res = core.explore(fn, **kw)
    return result_dict(res)


def merge(dicts):
    out = {"stats": {}, "violations": [], "sites": {}, "inconclusive": [], "samples": [], "extra": {}}
    for d in dicts:
        for k, v in d["stats"].items():
            out["stats"][k] = out["stats"].get(k, 0) + v
        out["violations"] += d["violations"]
        for k, v in d["sites"].items():
            out["sites"][k] = out["sites"].get(k, 0) + v
        out["inconclusive"] += d["inconclusive"]
        out["samples"] += d["samples"]
        for k, v in d.get("extra", {}).items():
            out["extra"][k] = out["extra"].get(k, 0) + v if isinstance(v, (int, float)) else v
    return out
