"""C13 - metadata export (-a) only adds packets; application data is unchanged.

tls : every C01 pipeline scenario is run twice inside one path (exp_meta off / on); the plain packets must appear in the -a output in
      the same order with the same payloads, every additional packet must carry handshake / CCS / alert material of the scenario,
      and the ClientHello and ServerHello records must appear verbatim as packets of their own."""

VALIDATE = True
SITES = ["no-exception", "plain-packets-preserved-in-order", "extras-are-handshake-material", "hello-records-verbatim",
         "quic-stream-data-preserved-in-order"]
MODELS = ["as C01 (ideal cryptography, recorder scapy, dpkt spec parser)"]
ASSUMPTIONS = ["as C01", "packets of the two runs are aligned by syntactic identity of their payload terms (both runs decrypt the same symbolic ciphertexts)"]


def configs(tier, seed):
    from tlv.harness import c01
    out = []
    for c in c01.configs(tier, seed):
        if c["harness"] != "pipeline":
            continue
        c = dict(c)
        c["name"] = "meta-" + c["name"]
        c["harness"] = "tls-meta"
        out.append(c)
    if tier == "quick":
        # one configuration per (version, cipher kind) is enough for the option's wiring; the decrypt paths themselves are C01's
        seen, sel = set(), []
        for c in out:
            k = (c["version"], c["suite"], c.get("shape"))
            kk = (c["version"], c.get("shape"), c.get("etm", False))
            if kk in seen:
                continue
            seen.add(kk)
            sel.append(c)
        out = sel
    else:
        # every (version, cipher family, handshake shape, EtM, key-log label): -a does not depend on which member of a family is used
        seen, sel = set(), []
        for c in out:
            fam = c["suite_name"].split("_WITH_")[-1].split("_")[0]
            kk = (c["version"], fam, c.get("shape"), c.get("etm", False), c.get("keylog_label"), c.get("seg_size"))
            if kk in seen:
                continue
            seen.add(kk)
            sel.append(c)
        out = sel
    # an alert between application records (what follows an alert is outside C01, but -a must not change what is exported)
    for v, code, name in (("TLS12", 0x009c, "TLS_RSA_WITH_AES_128_GCM_SHA256"), ("TLS10", 0x002f, "TLS_RSA_WITH_AES_128_CBC_SHA"), ("TLS11", 0x0005, "TLS_RSA_WITH_RC4_128_SHA")):
        out.append({"harness": "tls-meta", "name": "meta-%s-%04x-alert-then-data" % (v, code), "version": v, "suite": code, "suite_name": name, "records": 3, "max_len": 1,
                    "min_len": 1, "grouping": "separate", "alert_at": 1, "ipv": 4, "shape": "alert-then-data"})
    # the byte streams cut without regard to record boundaries: several records per segment, records spanning segments
    for v, code, name, extra in (("TLS12", 0x009c, "TLS_RSA_WITH_AES_128_GCM_SHA256", {}), ("TLS10", 0x002f, "TLS_RSA_WITH_AES_128_CBC_SHA", {"abbreviated": True, "sid_len": 32}),
                                 ("TLS13", 0x1301, "TLS_AES_128_GCM_SHA256", {"compat_ccs": True, "sid_len": 32})):
        for seg in ((40,) if tier == "quick" else (17, 40, 64)):
            out.append({"harness": "tls-meta", "name": "meta-%s-%04x-stream-segments-%d" % (v, code, seg), "version": v, "suite": code, "suite_name": name, "records": 2,
                        "max_len": 3, "min_len": 2, "grouping": "separate", "ipv": 4, "shape": "stream-segments", "stream_segments": True, "seg_size": seg, **extra})
    # the capture clock steps back inside the connection
    out.append({"harness": "tls-meta", "name": "meta-TLS12-009c-clock-step", "version": "TLS12", "suite": 0x009c, "suite_name": "TLS_RSA_WITH_AES_128_GCM_SHA256", "records": 2,
                "max_len": 2, "min_len": 1, "grouping": "separate", "ipv": 4, "shape": "clock-step", "clock_step": True})
    from tlv.harness import c02
    for c in c02.configs(tier, seed):
        if tier == "quick" and not (c["name"].endswith("cid8.4.8") or c["name"].endswith("cid8.0.8")):
            continue
        if tier == "quick" and c["suite"] != 0x1301 and not c["name"].startswith("%04x-basic" % c["suite"]):
            continue
        c = dict(c)
        c["name"] = "meta-quic-" + c["name"]
        c["harness"] = "quic-meta"
        out.append(c)
    return out


def bounds(tier):
    from tlv.harness import c01
    b = c01.bounds(tier)
    b["note"] = "quick: one suite per (version, handshake shape, EtM); thorough: one suite per (version, cipher family, handshake shape, EtM, key-log label)"
    return b


def _stream_groups(items):
    """consecutive items of one direction form one byte stream (cut into segments without regard to record boundaries)"""
    groups = []
    for k, it in enumerate(items):
        if groups and items[groups[-1][0]].from_server == it.from_server:
            groups[-1].append(k)
        else:
            groups.append([k])
    return groups


def _chunks(out, ep):
    """(from_server, load) of every PA packet, in output order."""
    res = []
    for fr, ts in out:
        tcp = fr.layer("TCP")
        if tcp is None or "P" not in str(tcp.flags):
            continue
        raw = fr.layer("Raw")
        res.append((tcp.sport == ep.s_port, raw.load if raw is not None else b""))
    return res


def _find_blocks(blocks, payloads, same):
    """Order-preserving placement of each (dir, block) as a contiguous run inside the payloads of the same direction."""
    j, off = 0, 0
    for d, blk in blocks:
        placed = False
        while j < len(payloads):
            pd, pl = payloads[j]
            if pd == d:
                k = off
                while k + len(blk) <= len(pl):
                    if same(pl[k:k + len(blk)], blk):
                        placed = True
                        off = k + len(blk)
                        break
                    k += 1
                if placed:
                    break
            j += 1
            off = 0
        if not placed:
            return False
    return True


def _run_quic(cfg):
    from tlv.sx.core import ctx
    from tlv.sx.symbytes import as_symbytes
    from tlv.harness import pipeline as P, c02
    from tlv.harness.common import explore_cfg
    from tlv.oracle import scenario as SC, quic_scenario as QS
    from cryptography._model import same_terms
    mods = P.setup_symbolic()

    def scenario():
        c = ctx()
        src = SC.SymSrc()
        dgrams, keylog, meta = QS.build(cfg, src)
        c02.assume_cids_prefix_free(c, meta)
        c02.assume_no_accidental_cid(c, meta, dgrams)
        runs = []
        try:
            for meta_on in (False, True):
                ep = P.Endpoint(ipv=cfg.get("ipv", 4))
                out, sessions = P.run_quic(mods, P.udp_frames(ep, dgrams), P.keylog_objects(mods, keylog), metadata=meta_on)
                runs.append([(d, as_symbytes(load).e) for d, load, ts in P.udp_payloads(out, ep) if d is None or len(load) > 0])
        except Exception as e:
            import traceback
            c.fail("no-exception", "%s: %s %s" % (type(e).__name__, e, traceback.format_exc().splitlines()[-3:-1]))
            return {"outcome": "exception"}
        c.check(True, "no-exception")
        plain, meta_out = runs
        want = [(d.from_server, as_symbytes(d.stream).e) for d in dgrams if d.stream is not None and len(d.stream) > 0]
        ok_plain = len(plain) == len(want) and all(p[0] == w[0] and same_terms(p[1], w[1]) for p, w in zip(plain, want))
        c.check(ok_plain and _find_blocks(plain, meta_out, same_terms), "quic-stream-data-preserved-in-order",
                "plain %s, with -a %s" % ([(d, len(x)) for d, x in plain], [(d, len(x)) for d, x in meta_out]))
        return {"outcome": "plain %d, -a %d datagrams" % (len(plain), len(meta_out))}
    return explore_cfg(scenario, cfg, timeout_ms=60000, sample_paths=1)


def run_config(cfg):
    if cfg["harness"] == "quic-meta":
        return _run_quic(cfg)
    from tlv.sx.core import ctx, sym_or, sym_and
    from tlv.sx.symbytes import as_symbytes
    from tlv.harness import pipeline as P
    from tlv.harness.common import explore_cfg
    from tlv.oracle import scenario as SC
    from cryptography._model import same_terms
    mods = P.setup_symbolic()

    def scenario():
        c = ctx()
        src = SC.SymSrc()
        items, keylog, meta = SC.build(cfg, src)
        runs = []
        try:
            for meta_on in (False, True):
                ep = P.Endpoint(ipv=cfg.get("ipv", 4))
                frames = P.tcp_frames(ep, items, group=_stream_groups(items) if cfg.get("stream_segments") else None, seg_size=cfg.get("seg_size"))
                if cfg.get("clock_step"):
                    from tlv.sx.core import sym_choice
                    frames = P.clock_step(frames, sym_choice("clock_step_at", P.clock_step_positions(len(frames))))
                out, sessions = P.run_tls(mods, frames, P.keylog_objects(mods, keylog), exp_meta=meta_on)
                runs.append(_chunks(out, ep))
        except Exception as e:
            import traceback
            c.fail("no-exception", "%s: %s %s" % (type(e).__name__, e, traceback.format_exc().splitlines()[-3:-1]))
            return {"outcome": "exception"}
        c.check(True, "no-exception")
        plain, meta_out = runs
        i = 0
        extras = []
        for d, load in meta_out:
            if i < len(plain) and plain[i][0] == d and same_terms(as_symbytes(plain[i][1]).e, as_symbytes(load).e):
                i += 1
            else:
                extras.append((d, load))
        c.check(i == len(plain) and (len(plain) >= 2 or not cfg.get("stream_segments")), "plain-packets-preserved-in-order", "%d of %d plain packets found in order in the -a output" % (i, len(plain)))
        if cfg.get("stream_segments"):
            # handshake records cut over several segments are exported in as many pieces: only the application-data part is compared here
            return {"outcome": "plain %d packets, -a %d packets" % (len(plain), len(meta_out))}
        material = []
        for it in items:
            if it.app is None:
                material.append((it.from_server, as_symbytes(it.data)))
                if it.plain is not None:
                    material.append((it.from_server, as_symbytes(it.plain)))
        conds = []
        for d, load in extras:
            load = as_symbytes(load)
            conds.append(sym_or(*[load == m for md, m in material if md == d and len(m) == len(load)]))
        c.check(sym_and(*conds), "extras-are-handshake-material", "%d additional packets, not all of them handshake/CCS/alert material" % len(extras))
        hello = [it for it in items if it.kind in ("ClientHello", "ServerHello", "SH+Cert", "SH+Cert+SKE+SHD")]
        ok = all(any(d == h.from_server and same_terms(as_symbytes(load).e, as_symbytes(h.data).e) for d, load in meta_out) for h in hello)
        c.check(ok and len(hello) == 2, "hello-records-verbatim")
        return {"outcome": "plain %d packets, -a %d packets" % (len(plain), len(meta_out))}
    return explore_cfg(scenario, cfg, timeout_ms=60000, sample_paths=1)


def _concrete_quic(cfg, inp):
    from tlv import e2e
    from tlv.harness import pipeline as P
    from tlv.oracle import scenario as SC, quic_scenario as QS
    dgrams, keylog, meta = QS.build(cfg, SC.ConcreteSrc(inp))
    res = []
    for args in ((), ("-a",)):
        ep = P.Endpoint(ipv=cfg.get("ipv", 4))
        r = e2e.run_tlexport(e2e.concrete_udp_frames(ep, dgrams), e2e.keylog_text(keylog), args=args)
        if r["problems"]:
            return {"ok": False, "problems": r["problems"][:3]}
        res.append([(d, p) for d, p, t in e2e.udp_of(r, ep) if len(p) > 0])
    plain, meta_out = res
    want = [(d.from_server, bytes(d.stream)) for d in dgrams if d.stream is not None and len(d.stream) > 0]
    problems = []
    if plain != want:
        problems.append("plain export %s differs from the stream data sent %s" % (plain, want))
    if not _find_blocks(plain, meta_out, lambda a, b: a == b):
        problems.append("stream data %s not found in order in the -a export %s" % ([(d, p.hex()) for d, p in plain], [(d, p.hex()[:80]) for d, p in meta_out]))
    return {"ok": not problems, "problems": problems}


def _concrete(cfg, inp):
    if cfg["harness"] == "quic-meta":
        return _concrete_quic(cfg, inp)
    from tlv import e2e
    from tlv.harness import pipeline as P
    from tlv.oracle import scenario as SC
    src = SC.ConcreteSrc(inp)
    items, keylog, meta = SC.build(cfg, src)
    res = []
    for args in ((), ("-a",)):
        ep = P.Endpoint(ipv=cfg.get("ipv", 4))
        pk = e2e.concrete_frames(ep, items, group=_stream_groups(items) if cfg.get("stream_segments") else None, seg_size=cfg.get("seg_size"))
        if cfg.get("clock_step"):
            opts = P.clock_step_positions(len(pk))
            k = opts[inp.get("clock_step_at", 0)] if len(opts) > 1 else opts[0]
            pk = [(f, t) if i < k else (f, t - 50000000) for i, (f, t) in enumerate(pk)]
        r = e2e.run_tlexport(pk, e2e.keylog_text(keylog), args=args)
        if r["problems"]:
            return {"ok": False, "problems": r["problems"][:3]}
        conv, convs = e2e.streams_of(r, ep)
        res.append([(side, data) for side, data, ts, i in (conv["chunks"] if conv else [])])
    plain, meta_out = res
    problems = []
    i = 0
    extras = []
    for side, data in meta_out:
        if i < len(plain) and plain[i] == (side, data):
            i += 1
        else:
            extras.append((side, data))
    if i != len(plain):
        problems.append("only %d of %d plain packets found in order in the -a output" % (i, len(plain)))
    if cfg.get("stream_segments"):
        return {"ok": not problems, "problems": problems}
    material = []
    for it in items:
        if it.app is None:
            material.append(("s2c" if it.from_server else "c2s", bytes(it.data)))
            if it.plain is not None:
                material.append(("s2c" if it.from_server else "c2s", bytes(it.plain)))
    for e in extras:
        if e not in material:
            problems.append("additional packet %s %s is not handshake/CCS/alert material" % (e[0], e[1].hex()[:60]))
    for it in items:
        if it.kind in ("ClientHello", "ServerHello", "SH+Cert", "SH+Cert+SKE+SHD"):
            if ("s2c" if it.from_server else "c2s", bytes(it.data)) not in meta_out:
                problems.append("%s record not exported verbatim" % it.kind)
    return {"ok": not problems, "problems": problems[:5]}


def replay(cfg, viol):
    r = _concrete(cfg, viol["inputs"])
    return {"reproduced": not r["ok"], **r}


def validate(cfg, sample):
    r = _concrete(cfg, sample["inputs"])
    return {"agree": r["ok"], **r}
