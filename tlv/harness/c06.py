"""C06 - the output is always a well-formed pcapng of well-formed, reassemblable packets.

split  : OutputBuilder.build on records of *symbolic length* (abstract byte strings) carried by 1..K input packets each: synthetic
         three-way handshake, re-splitting into <= k contiguous parts that cover the record, gap-free sequence numbers and
         consistent acknowledgements - decided by z3 over all lengths below 2^15+2^11.
stream : main.run on a connection whose two application records span several segments each, the two directions' segments merged in
         every interleaving: a receiver taking the written packets in file order sees gap-free sequence numbers and acknowledgements
         of exactly the data written so far.
writer : main.run's writer loop only ever receives complete Ether/IP(v6)/TCP-or-UDP frames with a numeric timestamp (no raw
         placeholders), for decryptable and undecryptable QUIC/TLS input.
e2e    : sampled concrete scenarios through the real program; the output file is read by an independent strict pcapng reader
         that verifies block structure, length fields, IP/TCP/UDP checksums and reassembles every TCP conversation."""
import random

VALIDATE = False
SITES = ["no-exception", "handshake-first", "parts-cover-record", "sequence-space-gap-free", "acks-consistent", "timestamps-from-record",
         "writer-gets-frames-only", "lemma-L1", "e2e-well-formed", "stream-in-file-order"]
MODELS = ["records: abstract byte strings with symbolic length (len() shimmed in output_builder)",
          "floor(n / k) evaluated as n // k under lemma L1 (floor(fl(n/k)) = n div k for n < 2^16, k <= 64), discharged by cvc5 (QF_BVFP) for every k used",
          "scapy recorder frames; byte-level serialisation and checksums are scapy's/dpkt's and are checked only on the concrete e2e samples"]
ASSUMPTIONS = ["record plaintext lengths < 2^15 + 2^11; total bytes per direction < 2^32"]


def configs(tier, seed):
    out = []
    K = 3 if tier == "quick" else 6
    R = 2 if tier == "quick" else 3
    for ipv in (4, 6):
        for r in range(1, R + 1):
            out.append({"harness": "split", "name": "split-v%d-%drecords" % (ipv, r), "ipv": ipv, "records": r, "K": K, "mode": "stub"})
    # the whole program on a connection whose records span several segments while the peer's segments arrive in between
    for ipv in (4, 6):
        for ver, suite, sname in (("TLS12", 0x009c, "TLS_RSA_WITH_AES_128_GCM_SHA256"), ("TLS13", 0x1301, "TLS_AES_128_GCM_SHA256")):
            if tier == "quick" and (ipv, ver) in ((6, "TLS12"), (4, "TLS13")):
                continue
            out.append({"harness": "stream", "name": "stream-%s-v%d" % (ver, ipv), "version": ver, "suite": suite, "suite_name": sname, "ipv": ipv, "records": 2,
                        "sym_dirs": False, "dirs": [0, 1], "min_len": 1, "max_len": 3, "grouping": "one", "seg_size": 20})
    out.append({"harness": "writer", "name": "writer-undecryptable-quic", "kind": "quic-garbage"})
    out.append({"harness": "writer", "name": "writer-quic-handshake-only", "kind": "quic-handshake"})
    out.append({"harness": "writer", "name": "writer-tls-and-quic", "kind": "mixed"})
    rnd = random.Random(seed)
    for i in range(4 if tier == "quick" else 16):
        out.append({"harness": "e2e", "name": "e2e-%d" % i, "mode": "real", "seed": rnd.randrange(1 << 30), "i": i})
    return out


def bounds(tier):
    return {"split": "1-%d records of symbolic length in [0, 2^15+2^11), each carried by 1..%d input packets (solver-chosen), any directions" % ((2, 3) if tier == "quick" else (3, 6)),
            "stream": "TLS 1.2 / 1.3 GCM, IPv4 / IPv6, 2 records of 1-3 bytes in 20-byte segments, every interleaving of the two directions' segments",
            "writer": "12-byte long-header UDP payload with arbitrary first byte (long header, fixed bit) and version; QUIC handshake without stream data; TLS + QUIC in one capture",
            "e2e": "%d concrete sampled captures (TLS versions/suites, QUIC, mixed, undecryptable) checked by the strict reader" % (4 if tier == "quick" else 16)}


class _Pk:
    def __init__(self, ts):
        self.timestamp = ts


class _Rec:
    def __init__(self, metadata):
        self.metadata = metadata


def _run_split(cfg):
    from tlv.sx.core import ctx, sym_int, sym_choice, sym_and, sym_or
    from tlv.sx.absbytes import AbsBytes, len_shim
    from tlv.harness import pipeline as P
    from tlv.harness.common import explore_cfg
    mods = P.setup_symbolic()
    ob = mods["tlexport.output_builder"]
    ob.len = len_shim
    a = P.ADDR[cfg["ipv"]]
    import ipaddress
    sip, cip = str(ipaddress.ip_address(a["s_ip"])), str(ipaddress.ip_address(a["c_ip"]))

    def scenario():
        c = ctx()
        recs = []
        tcount = 0
        for i in range(cfg["records"]):
            n = sym_int("n%d" % i, 0, (1 << 15) + (1 << 11) - 1)
            k = sym_choice("k%d" % i, list(range(1, cfg["K"] + 1)))
            d = bool(sym_choice("dir%d" % i, [False, True]))
            ts = [sym_int("t%d_%d" % (i, j), 0, 1 << 40) for j in range(k)]
            recs.append((AbsBytes("rec%d" % i, 0, n), _Rec([_Pk(t) for t in ts]), d, n, ts))
        b = ob.OutputBuilder([(r[0], r[1], r[2]) for r in recs], sip, cip, 443, 50000, P.S_MAC, P.C_MAC, {}, cfg["ipv"] == 6, True)
        try:
            out = b.build()
        except Exception as e:
            import traceback
            c.fail("no-exception", "%s: %s %s" % (type(e).__name__, e, traceback.format_exc().splitlines()[-3:-1]))
            return {"outcome": "exception"}
        c.check(True, "no-exception")
        ipname = "IPv6" if cfg["ipv"] == 6 else "IP"

        def fields(item):
            fr, ts = item
            if not hasattr(fr, "layer") or fr.names()[:3] != ["Ether", ipname, "TCP"]:
                return None
            t = fr.layer("TCP")
            raw = fr.layer("Raw")
            from_server = fr.layer(ipname).src == sip
            return {"from_server": from_server, "flags": str(t.flags), "seq": t.seq, "ack": t.ack, "raw": raw.load if raw is not None else None, "ts": ts,
                    "sport": t.sport, "dport": t.dport}
        fs = [fields(x) for x in out]
        if not c.check(all(f is not None for f in fs) and len(fs) >= 3, "handshake-first", "a written item is not an Ether/%s/TCP frame" % ipname):
            return {"outcome": "malformed"}
        h = fs[:3]
        first_ts = recs[0][4][0]
        c.check(h[0]["flags"] == "S" and not h[0]["from_server"] and h[1]["flags"] == "SA" and h[1]["from_server"] and h[2]["flags"] == "A"
                and not h[2]["from_server"] and sym_and(h[0]["seq"] == 0, h[1]["seq"] == 0, h[1]["ack"] == 1, h[2]["seq"] == 1, h[2]["ack"] == 1,
                                                         h[0]["ts"] == first_ts, h[1]["ts"] == first_ts, h[2]["ts"] == first_ts), "handshake-first")
        nxt = {True: 1, False: 1}      # next sequence number per direction (True = server)
        pos = 3
        cover, seqs, acks, times = [], [], [], []
        shape_ok = True
        for data, rec, d, n, ts in recs:
            prev_stop = 0
            parts = 0
            # the parts of this record: PA from d followed by an ACK from the peer, until the record is covered
            while pos + 1 < len(fs) + 0 and parts < len(ts):
                f, ak = fs[pos], fs[pos + 1]
                if f["flags"] != "PA" or f["from_server"] != d or not isinstance(f["raw"], AbsBytes) or f["raw"].base != data.base:
                    break
                parts += 1
                pos += 2
                cover.append(f["raw"].start == prev_stop)
                prev_stop = f["raw"].stop
                ln = f["raw"].symlen
                seqs.append(f["seq"] == nxt[d])
                acks.append(f["ack"] == nxt[not d])
                nxt[d] = nxt[d] + ln
                acks.append(sym_and(ak["seq"] == nxt[not d], ak["ack"] == nxt[d]))
                shape_ok = shape_ok and ak["flags"] == "A" and ak["from_server"] == (not d)
                times.append(sym_and(sym_or(*[f["ts"] == t for t in ts]), sym_or(*[ak["ts"] == t for t in ts])))
            cover.append(prev_stop == n)          # also holds for an empty record without parts (0 == n)
            shape_ok = shape_ok and parts <= len(ts)
        c.check(shape_ok and pos == len(fs), "parts-cover-record", "unexpected packet sequence (%d packets, %d consumed)" % (len(fs), pos))
        c.check(sym_and(*cover), "parts-cover-record")
        c.check(sym_and(*seqs), "sequence-space-gap-free")
        c.check(sym_and(*acks), "acks-consistent")
        c.check(sym_and(*times), "timestamps-from-record")
        return {"outcome": "%d packets" % len(fs), "validate": False}
    r = explore_cfg(scenario, cfg, timeout_ms=120000, sample_paths=1)
    ks = r.get("notes", {}).get("L1_k", [])
    bad = lemma_l1(ks)
    r["sites"]["lemma-L1"] = len(ks)
    r["extra"] = {"lemma_L1_divisors_discharged": len(ks) - len(bad)}
    for k, res in bad:
        r["inconclusive"].append("lemma L1 not proved for k=%d: %s" % (k, res))
    return r


def lemma_l1(ks):
    """floor(fl(n / k)) == n div k for all n < 2^16 and each k in ks: cvc5, QF_BVFP.  -> list of failing/undecided k"""
    import cvc5
    from cvc5 import Kind
    bad = []
    for k in sorted(ks):
        s = cvc5.Solver()
        s.setLogic("QF_BVFP")
        s.setOption("tlimit-per", "120000")
        n = s.mkConst(s.mkBitVectorSort(16), "n")
        rne = s.mkRoundingMode(cvc5.RoundingMode.ROUND_NEAREST_TIES_TO_EVEN)
        rtn = s.mkRoundingMode(cvc5.RoundingMode.ROUND_TOWARD_NEGATIVE)
        to_fp = s.mkOp(Kind.FLOATINGPOINT_TO_FP_FROM_UBV, 11, 53)
        q = s.mkTerm(Kind.FLOATINGPOINT_DIV, rne, s.mkTerm(to_fp, rne, n), s.mkTerm(to_fp, rne, s.mkBitVector(16, k)))
        fl = s.mkTerm(s.mkOp(Kind.FLOATINGPOINT_TO_UBV, 16), rtn, q)
        s.assertFormula(s.mkTerm(Kind.DISTINCT, fl, s.mkTerm(Kind.BITVECTOR_UDIV, n, s.mkBitVector(16, k))))
        r = s.checkSat()
        if not r.isUnsat():
            bad.append((k, str(r)))
    return bad


def _run_writer(cfg):
    from tlv.sx.core import ctx, sym_and
    from tlv.sx.symbytes import mixed_bytes
    from tlv.harness import pipeline as P, rundriver as RD, c02
    from tlv.harness.common import explore_cfg
    from tlv.oracle import scenario as SC, quic_scenario as QS, frames as F
    mods = P.setup_symbolic()

    def scenario():
        c = ctx()
        src = SC.SymSrc()
        ep = P.Endpoint(ipv=4)
        blocks = []
        keylog = []
        if cfg["kind"] == "quic-garbage":
            # long-header + fixed bit, unknown version bytes symbolic: nothing can be decrypted
            payload = mixed_bytes("udp", [1, 4, bytes(7)])
            c.assume((payload[0] & 0xC0) == 0xC0)
            seg = F.udp_segment(F.u16(ep.c_port), F.u16(ep.s_port), payload)
            blocks.append((1.0, F.ethernet(ep.s_mac, ep.c_mac, False, F.ip_header(False, ep.c_ip, ep.s_ip, 17, len(seg)) + seg)))
        else:
            qcfg = {"suite": 0x1301, "offered": [0x1301], "odcid_len": 8, "c_cid_len": 4, "s_cid_len": 8, "n_app": 0 if cfg["kind"] == "quic-handshake" else 1, "data_len": 1}
            dgrams, keylog, meta = QS.build(qcfg, src)
            c02.assume_cids_prefix_free(c, meta)
            c02.assume_no_accidental_cid(c, meta, dgrams)
            blocks += [(float(ts), fr) for fr, ts, _ in P.udp_frames(ep, dgrams)]
            if cfg["kind"] == "mixed":
                tcfg = {"version": "TLS12", "suite": 0x009c, "suite_name": "TLS_RSA_WITH_AES_128_GCM_SHA256", "records": 1, "max_len": 1, "min_len": 1, "grouping": "one"}
                items, kl2, tmeta = SC.build(tcfg, SC.SymSrc("t."))
                from tlv.sx.core import sym_not
                from tlv.sx.symbytes import as_symbytes
                c.assume(sym_not(as_symbytes(tmeta["cr"]) == meta["cr"]))     # two connections do not share a client random
                keylog = keylog + kl2
                ep2 = P.Endpoint(ipv=4, c_port=50001)
                blocks += [(float(ts), fr) for fr, ts, *_ in P.tcp_frames(ep2, items, t0=200.0)]
        env = RD.RunEnv(mods, blocks, files={"k.log": ""})
        mods["tlexport.keylog_reader"].get_keys_from_string = lambda text: P.keylog_objects(mods, keylog)
        try:
            out = RD.run_main(mods, ["-i", "in.pcapng", "-o", "o.pcapng", "-s", "k.log"], env)
        except Exception as e:
            import traceback
            c.fail("no-exception", "%s: %s %s" % (type(e).__name__, e, traceback.format_exc().splitlines()[-3:-1]))
            return {"outcome": "exception"}
        c.check(True, "no-exception")
        bad = []
        for i, (fr, ts) in enumerate(out):
            names = fr.names() if hasattr(fr, "names") else None
            if names is None or names[0] != "Ether" or names[1] not in ("IP", "IPv6") or names[2] not in ("TCP", "UDP") or isinstance(ts, bool) \
                    or not isinstance(ts, (int, float)) or (ts == 0):
                bad.append((i, repr(fr)[:40], ts))
        c.check(not bad, "writer-gets-frames-only", "items handed to the pcapng writer that are not frames with a capture time: %r" % bad[:3])
        return {"outcome": "%d items written" % len(out), "validate": False}
    return explore_cfg(scenario, cfg, timeout_ms=60000, sample_paths=1, max_paths=5000)


def _stream_frames(cfg, items, ep, choose, concrete):
    """Segments of the connection; the segments of the two application records are merged in a solver-chosen interleaving that keeps
    each direction's order.  -> frames in capture order with increasing times."""
    from tlv import e2e
    from tlv.harness import pipeline as P
    fr = e2e.concrete_frames(ep, items, seg_size=cfg["seg_size"]) if concrete else P.tcp_frames(ep, items, seg_size=cfg["seg_size"])
    napp = [i for i, it in enumerate(items) if it.app is not None]
    # frames of the two application records are the trailing ones: count them from the segment sizes
    import math
    na = math.ceil(len(items[napp[0]].data) / cfg["seg_size"])
    nb = math.ceil(len(items[napp[1]].data) / cfg["seg_size"])
    head, A, B = fr[:len(fr) - na - nb], fr[len(fr) - na - nb:len(fr) - nb], fr[len(fr) - nb:]
    merges = []

    def gen(i, j, acc):
        if i == len(A) and j == len(B):
            merges.append(tuple(acc))
            return
        if i < len(A):
            gen(i + 1, j, acc + [0])
        if j < len(B):
            gen(i, j + 1, acc + [1])
    gen(0, 0, [])
    order = choose("interleaving", merges)
    ia, ib, tail = iter(A), iter(B), []
    for w in order:
        tail.append(next(ia) if w == 0 else next(ib))
    allf = list(head) + tail
    if concrete:
        return [(f[0], 100000000 + k * 1000) for k, f in enumerate(allf)]
    return [(f[0], 100.0 + k) + tuple(f[2:]) for k, f in enumerate(allf)]


def _run_stream(cfg):
    from tlv.sx.core import ctx, sym_and, sym_choice
    from tlv.harness import pipeline as P
    from tlv.harness.common import explore_cfg
    from tlv.oracle import scenario as SC
    mods = P.setup_symbolic()

    def scenario():
        c = ctx()
        src = SC.SymSrc()
        items, keylog, meta = SC.build(cfg, src)
        ep = P.Endpoint(ipv=cfg["ipv"])
        frames = _stream_frames(cfg, items, ep, sym_choice, False)
        try:
            out, sessions = P.run_tls(mods, frames, P.keylog_objects(mods, keylog))
        except Exception as e:
            import traceback
            c.fail("no-exception", "%s: %s %s" % (type(e).__name__, e, traceback.format_exc().splitlines()[-3:-1]))
            return {"outcome": "exception"}
        c.check(True, "no-exception")
        # a receiver that takes the packets in file order: every segment starts where the previous one of its direction ended and
        # acknowledges exactly what the peer has sent so far
        nxt = {}
        conds, shape = [], []
        for k, (fr, ts) in enumerate(out):
            t = fr.layer("TCP") if hasattr(fr, "layer") else None
            if t is None:
                shape.append("item %d is not a TCP frame" % k)
                continue
            d = t.sport == ep.s_port
            fl = str(t.flags)
            raw = fr.layer("Raw")
            ln = len(raw.load) if raw is not None else 0
            if fl == "S":
                if k != 0 or d:
                    shape.append("SYN at position %d" % k)
                nxt[d] = t.seq + 1
                continue
            if fl == "SA":
                if k != 1 or not d:
                    shape.append("SYN-ACK at position %d" % k)
                conds.append(t.ack == nxt.get(not d))
                nxt[d] = t.seq + 1
                continue
            if True not in nxt or False not in nxt:
                shape.append("data before the handshake (item %d)" % k)
                break
            conds.append(t.seq == nxt[d])
            conds.append(t.ack == nxt[not d])
            nxt[d] = nxt[d] + ln
        c.check(not shape and len(out) >= 5, "handshake-first", "; ".join(shape[:3]) or "%d packets" % len(out))
        c.check(sym_and(*conds) if conds else True, "stream-in-file-order", "a segment does not continue its direction's sequence space or acknowledges data not yet in the file")
        return {"outcome": "%d packets" % len(out)}
    return explore_cfg(scenario, cfg, timeout_ms=60000, sample_paths=1)


def _replay_stream(cfg, inp):
    from tlv import e2e
    from tlv.harness import pipeline as P
    from tlv.oracle import scenario as SC, pcapng
    items, keylog, meta = SC.build(cfg, SC.ConcreteSrc(inp))
    ep = P.Endpoint(ipv=cfg["ipv"])

    def choose(name, options):
        return options[inp[name]] if len(options) > 1 else options[0]
    pk = _stream_frames(cfg, items, ep, choose, True)
    res = e2e.run_tlexport(pk, e2e.keylog_text(keylog))
    problems = list(res["problems"])
    for key, cv in pcapng.reassemble(res["frames"]).items():
        problems += cv["problems"]
    return {"reproduced": bool(problems), "problems": problems[:4]}


def _e2e_case(cfg):
    """Concrete sampled capture -> (packets, keylog text, args)"""
    from tlv import e2e
    from tlv.harness import pipeline as P, c01, c02
    from tlv.oracle import scenario as SC, quic_scenario as QS, suites as S
    rnd = random.Random(cfg["seed"])
    pk, kl = [], []
    tbase = 100000000
    tls_cfgs = [c for c in c01.configs("quick", cfg["seed"]) if c["harness"] == "pipeline"]
    for j in range(2):
        tc = dict(rnd.choice(tls_cfgs))
        tc.update(records=3, max_len=40)
        inp = {"len%d" % i: rnd.randrange(0, 41) for i in range(3)}
        items, keylog, _ = SC.build(tc, SC.ConcreteSrc(inp, prefix="c%d." % j))
        ep = P.Endpoint(ipv=rnd.choice([4, 6]), c_port=40000 + j)
        seg = rnd.choice([None, 7, 100])
        for fr, t in e2e.concrete_frames(ep, items, t0_us=tbase + j * 17, dt_us=1000, seg_size=seg):
            pk.append((fr, t))
        if j == 0 or rnd.random() < 0.5:        # the second connection is sometimes left without keys
            kl += keylog
    qc = dict(rnd.choice(c02.configs("quick", cfg["seed"])))
    dgrams, keylog, _ = QS.build(qc, SC.ConcreteSrc({}, prefix="q."))
    ep = P.Endpoint(ipv=qc.get("ipv", 4), c_port=41000)
    for d in dgrams:
        d.ts = (tbase + 5 + d.ts * 1000) / 1e6
    pk += e2e.concrete_udp_frames(ep, dgrams)
    kl += keylog
    # unrelated traffic: plain HTTP on 443 and a non-QUIC datagram
    from tlv.oracle import frames as F
    pk.append((F.concrete_tcp_frame(P.C_MAC, P.S_MAC, False, P.ADDR[4]["c_ip"], P.ADDR[4]["s_ip"], 42000, 443, 1, 0, 0x18, b"GET / HTTP/1.1\r\n\r\n"), tbase + 3))
    pk.append((F.concrete_udp_frame(P.C_MAC, P.S_MAC, False, P.ADDR[4]["c_ip"], P.ADDR[4]["s_ip"], 42001, 53, bytes(rnd.randrange(256) for _ in range(30))), tbase + 4))
    pk.sort(key=lambda x: x[1])
    args = rnd.choice([[], ["-a"], ["-m"], ["-m", "443:8081"], ["-c"]])
    return pk, e2e.keylog_text(kl), args


def _run_e2e(cfg):
    from tlv import e2e
    from tlv.oracle import pcapng
    import time
    t0 = time.time()
    pk, kl, args = _e2e_case(cfg)
    res = e2e.run_tlexport(pk, kl, args=args)
    problems = list(res["problems"])
    convs = pcapng.reassemble(res["frames"])
    for key, c in convs.items():
        problems += ["%s:%d<->%s:%d %s" % (key[0][0].hex(), key[0][1], key[1][0].hex(), key[1][1], p) for p in c["problems"]]
    viol = [{"label": "e2e-well-formed", "inputs": {"seed": cfg["seed"]}, "detail": problems[:5]}] if problems else []
    return {"stats": {"paths": 1, "decisions": len(res["frames"]), "queries": 0, "solver_s": 0.0, "checks": 1}, "violations": viol,
            "sites": {"e2e-well-formed": 1}, "inconclusive": [],
            "samples": [{"path": 0, "inputs": {"seed": cfg["seed"], "args": args, "input_packets": len(pk)}, "validate": False,
                         "result": "%d output packets, %d conversations" % (len(res["frames"]), len(convs))}]}


def run_config(cfg):
    h = cfg["harness"]
    if h == "split":
        r = _run_split(cfg)
        return r
    if h == "writer":
        return _run_writer(cfg)
    if h == "stream":
        return _run_stream(cfg)
    return _run_e2e(cfg)


def post(results):
    """Runs once in the parent after all configurations: discharge lemma L1 for every divisor the split harness used."""
    return None


def replay(cfg, viol):
    h = cfg["harness"]
    inp = viol["inputs"]
    if h == "e2e":
        r = _run_e2e(cfg)
        return {"reproduced": bool(r["violations"]), "problems": r["violations"][0]["detail"] if r["violations"] else []}
    if h == "split":
        return _replay_split(cfg, inp)
    if h == "writer":
        return _replay_writer(cfg, inp)
    if h == "stream":
        return _replay_stream(cfg, inp)
    return {"reproduced": None}


def _replay_split(cfg, inp):
    """Real OutputBuilder with real scapy, serialised and read back by the strict reader."""
    import ipaddress
    import os
    import tempfile
    import dpkt
    from tlexport.output_builder import OutputBuilder
    from tlv.harness import pipeline as P
    from tlv.oracle import pcapng
    a = P.ADDR[cfg["ipv"]]
    sip, cip = str(ipaddress.ip_address(a["s_ip"])), str(ipaddress.ip_address(a["c_ip"]))
    recs = []
    want = {True: b"", False: b""}
    for i in range(cfg["records"]):
        n = inp["n%d" % i]
        k = list(range(1, cfg["K"] + 1))[inp.get("k%d" % i, 0)]
        d = [False, True][inp.get("dir%d" % i, 0)]
        data = bytes((i * 37 + j) & 0xFF for j in range(n))
        want[d] += data
        recs.append((data, _Rec([_Pk(1000.0 + inp.get("t%d_%d" % (i, j), 0) % 1000) for j in range(k)]), d))
    problems = []
    try:
        out = OutputBuilder(recs, sip, cip, 443, 50000, P.S_MAC, P.C_MAC, {}, cfg["ipv"] == 6, True).build()
        with tempfile.NamedTemporaryFile(delete=False, prefix="tlv-split-") as f:
            w = dpkt.pcapng.Writer(f, snaplen=20000)
            for fr, ts in out:
                w.writepkt(bytes(fr), ts)
        try:
            raw = pcapng.read_capture(f.name)
        finally:
            os.unlink(f.name)
        dec = []
        for fr, t, r in raw:
            dec.append(pcapng.decode_frame(fr))
        convs = pcapng.reassemble(dec)
        if not any(n_ for n_ in (inp["n%d" % i] for i in range(cfg["records"]))):
            convs = convs or {}
        for key, cv in convs.items():
            problems += cv["problems"]
            if cv["c2s"] != want[False] or cv["s2c"] != want[True]:
                problems.append("reassembled streams differ from the records")
        if not convs and (want[True] or want[False]):
            problems.append("no conversation in the output")
    except Exception as e:
        problems.append("exception %s: %s" % (type(e).__name__, e))
    return {"reproduced": bool(problems), "problems": problems[:4]}


def _replay_writer(cfg, inp):
    from tlv import e2e
    from tlv.harness import pipeline as P
    from tlv.oracle import frames as F
    if cfg["kind"] != "quic-garbage":
        return {"reproduced": None, "why": "replay implemented for the arbitrary-payload case only"}
    ep = P.Endpoint(ipv=4)
    payload = bytes.fromhex(inp["udp"])
    pk = [(F.concrete_udp_frame(ep.c_mac, ep.s_mac, False, ep.c_ip, ep.s_ip, ep.c_port, ep.s_port, payload), 1000000)]
    r = e2e.run_tlexport(pk, "")
    return {"reproduced": bool(r["problems"]), "problems": r["problems"][:3]}


def validate(cfg, sample):
    return {"agree": True}
