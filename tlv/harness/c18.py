"""C18 - the export is a deterministic function of capture, secrets and options.

Every environment choice the program could depend on is made a solver variable:
setorder : the iteration order of every set of connection ids (what PYTHONHASHSEED changes) is chosen by the solver each time a set
           is iterated; the C02 assertion must hold on every path, i.e. the export is the same for every order.
cwd      : os.path.exists() of every path not named on the command line is a symbolic boolean (any working directory).
env      : main.run without -s (secrets of one connection in a DSB) with an empty process environment and with the usual variables set,
           among them SSLKEYLOGFILE naming a readable key log that holds another connection's secrets: identical writer calls.
sched    : two connections in one capture, main.run() twice in one path; the completion order of concurrent.futures tasks (if the code
           uses any) is chosen by the solver independently in both runs (tlv/models/sched_model.py): identical writer calls.
rerun    : main.run() on capture A and then, in the same process, on capture B: B's writer calls must equal those of B alone."""

VALIDATE = False
SITES = ["no-exception", "datagrams-equal-stream-data", "cwd-independent", "second-run-unaffected", "schedule-independent", "environment-independent"]
MODELS = ["set(): SymSet with solver-chosen iteration order", "file system / reader / writer stubs (tlv/harness/rundriver.py)", "as C01/C02"]
ASSUMPTIONS = ["CPython dicts and lists are insertion ordered; sets are the only hash-order dependent containers in the code (connection-id sets)"]


def configs(tier, seed):
    out = []
    shapes = [(8, 4, 8), (8, 0, 8), (8, 8, 0), (8, 0, 0), (8, 8, 8)]
    for suite in ((0x1301,) if tier == "quick" else (0x1301, 0x1302, 0x1303, 0x1304)):
        for od, cc, sc in shapes:
            for feat, extra in (("basic", {}), ("ncid", {"ncid": True, "ncid_at": 0})):
                for d in (0, 1):
                    out.append({"harness": "setorder", "name": "setorder-%04x-%s-cid%d.%d.%d-%s" % (suite, feat, od, cc, sc, "s" if d else "c"), "suite": suite,
                                "offered": [suite], "odcid_len": od, "c_cid_len": cc, "s_cid_len": sc, "ipv": 4, "n_app": 1, "data_len": 1, "set_orders": True,
                                "sym_dirs": False, "dirs": [d], **extra})
        # the client's id is the first half of the server's id: the one shape where the order of the id set could pick the wrong id
        for d in (0, 1):
            out.append({"harness": "setorder", "name": "setorder-%04x-alias-cid8.4.8-%s" % (suite, "s" if d else "c"), "suite": suite, "offered": [suite], "odcid_len": 8,
                        "c_cid_len": 4, "s_cid_len": 8, "ipv": 4, "n_app": 1, "data_len": 1, "set_orders": True, "sym_dirs": False, "dirs": [d],
                        "cid_alias": "client-prefix-of-server"})
    for proto in ("tls", "quic"):
        out.append({"harness": "cwd", "name": "cwd-" + proto, "proto": proto})
        out.append({"harness": "rerun", "name": "rerun-%s-then-%s" % (proto, proto), "first": proto, "second": proto})
    out.append({"harness": "sched", "name": "sched-two-tls-connections"})
    out.append({"harness": "env", "name": "env-variables"})
    out.append({"harness": "rerun", "name": "rerun-tls-then-quic", "first": "tls", "second": "quic"})
    out.append({"harness": "rerun", "name": "rerun-quic-then-tls", "first": "quic", "second": "tls"})
    return out


def bounds(tier):
    return {"setorder": "iteration orders of the connection-id sets (identity, reversal, all rotations: every pair in both orders) chosen independently at every iteration, C02 basic and NEW_CONNECTION_ID flows, 5 connection-id length shapes incl. zero-length; one shape in which the client's id is a prefix of the server's id (elsewhere the ids of a connection are assumed prefix-free)",
            "cwd": "existence of every path not given on the command line", "env": "process environment empty vs a fixed set of variables (SSLKEYLOGFILE, TLEXPORT_KEYLOG, KEYLOG naming a readable key log; HOME, PWD, TZ, LANG, PYTHONHASHSEED)",
            "sched": "two TLS connections, every completion order of <= 3 futures (rotations and reversal beyond)", "rerun": "two consecutive in-process runs (TLS/QUIC in all four combinations)",
            "outside": "PYTHONHASHSEED effects other than set iteration order"}


def _order_chooser():
    from tlv.sx.core import ctx, sym_choice
    import itertools

    def choose(n):
        c = ctx()
        k = c.path_data.get("order_calls", 0)
        c.path_data["order_calls"] = k + 1
        # identity, reversal and all rotations: every pair of elements occurs in both relative orders
        base = list(range(n))
        perms = [tuple(base[i:] + base[:i]) for i in range(n)] + [tuple(reversed(base))]
        perms = list(dict.fromkeys(perms))
        return sym_choice("setorder%d" % k, perms)
    return choose


def _scenario_blocks(mods, proto, src, ep, dup_server_flight=False):
    from tlv.harness import pipeline as P
    from tlv.oracle import scenario as SC, quic_scenario as QS
    if proto == "tls":
        scfg = {"version": "TLS12", "suite": 0x009c, "suite_name": "TLS_RSA_WITH_AES_128_GCM_SHA256", "records": 2, "max_len": 1, "min_len": 1, "grouping": "one"}
        items, keylog, meta = SC.build(scfg, src)
        return [(float(ts), fr) for fr, ts, *_ in P.tcp_frames(ep, items)], keylog, meta
    qcfg = {"suite": 0x1301, "offered": [0x1301], "odcid_len": 8, "c_cid_len": 4, "s_cid_len": 8, "n_app": 2, "data_len": 1,
            "retransmit_server_hello": bool(dup_server_flight)}
    dgrams, keylog, meta = QS.build(qcfg, src)
    from tlv.harness import c02
    from tlv.sx.core import ctx
    c02.assume_cids_prefix_free(ctx(), meta)
    c02.assume_no_accidental_cid(ctx(), meta, dgrams)
    blocks = [(float(ts), fr) for fr, ts, _ in P.udp_frames(ep, dgrams)]
    return blocks, keylog, meta


def _summ(out):
    from tlv.sx.symbytes import as_symbytes
    return [(fr.names(), tuple(as_symbytes(fr.layer("Raw").load).e) if fr.layer("Raw") is not None else (), ts,
             (fr.layer("TCP") or fr.layer("UDP")).sport, (fr.layer("TCP") or fr.layer("UDP")).dport) for fr, ts in out]


def _same(a, b):
    from cryptography._model import same_terms
    return len(a) == len(b) and all(x[0] == y[0] and x[2] == y[2] and x[3] == y[3] and x[4] == y[4] and same_terms(list(x[1]), list(y[1])) for x, y in zip(a, b))


def run_config(cfg):
    h = cfg["harness"]
    if h == "setorder":
        from tlv.harness import c02
        from tlv.sx.symdict import SymSet
        SymSet.order_chooser = _order_chooser()
        try:
            return c02.run_config(cfg)
        finally:
            SymSet.order_chooser = None
    from tlv.sx.core import ctx, sym_bool
    from tlv.harness import pipeline as P, rundriver as RD
    from tlv.harness.common import explore_cfg
    from tlv.oracle import scenario as SC
    mods = P.setup_symbolic()

    def scenario():
        c = ctx()
        try:
            if h == "cwd":
                blocks, keylog, _ = _scenario_blocks(mods, cfg["proto"], SC.SymSrc(), P.Endpoint(ipv=4))
                mods["tlexport.keylog_reader"].get_keys_from_string = lambda text: P.keylog_objects(mods, keylog)
                argv = ["-i", "in.pcapng", "-o", "o.pcapng", "-s", "k.log"]
                base = _summ(RD.run_main(mods, argv, RD.RunEnv(mods, blocks, files={"k.log": ""})))
                flags = {}

                def exists(p):
                    if p == "k.log":
                        return True
                    if p not in flags:
                        flags[p] = sym_bool("exists:" + p)
                    return flags[p]
                var = _summ(RD.run_main(mods, argv, RD.RunEnv(mods, blocks, files={"k.log": ""}, exists=exists)))
                c.check(True, "no-exception")
                c.check(_same(base, var) and len(base) >= 3, "cwd-independent", "%r vs %r" % ([(x[0], len(x[1]), x[2]) for x in base], [(x[0], len(x[1]), x[2]) for x in var]))
                return {"outcome": "same", "validate": False}
            if h == "env":
                # two connections; the secrets of the first come in a DSB, no -s; the process environment is empty in one run and
                # holds the usual variables (SSLKEYLOGFILE naming a readable key log with the second connection's secrets among
                # them) in the other: identical writer calls
                epa, epb = P.Endpoint(ipv=4, c_port=50000), P.Endpoint(ipv=4, c_port=50001)
                ba, kla, _ = _scenario_blocks(mods, "tls", SC.SymSrc("a."), epa)
                bb, klb, _ = _scenario_blocks(mods, "tls", SC.SymSrc("b."), epb)
                blocks = [(-1, b"DSB-A secrets of the first connection")] + ba + bb
                table = {"DSB-A secrets of the first connection": kla, "FILE-B": klb}
                mods["tlexport.keylog_reader"].get_keys_from_string = lambda text: P.keylog_objects(mods, table.get(str(text).strip(), []))
                argv = ["-i", "in.pcapng", "-o", "o.pcapng"]
                environ = {"SSLKEYLOGFILE": "env.log", "HOME": "/home/u", "PWD": "/tmp", "TZ": "UTC", "LANG": "C", "PYTHONHASHSEED": "7", "TLEXPORT_KEYLOG": "env.log",
                           "KEYLOG": "env.log"}
                files = {"env.log": "FILE-B"}
                one = _summ(RD.run_main(mods, argv, RD.RunEnv(mods, blocks, files=files)))
                two = _summ(RD.run_main(mods, argv, RD.RunEnv(mods, blocks, files=files, environ=environ)))
                c.check(True, "no-exception")
                c.check(_same(one, two) and len(one) >= 3, "environment-independent", "empty environment: %d packets written, with variables set: %d" % (len(one), len(two)))
                return {"outcome": "same", "validate": False}
            if h == "sched":
                # two connections in one capture, run twice: whatever a scheduler may decide (completion order of futures, chosen by
                # the solver independently in both runs) must not show in the writer calls
                epa, epb = P.Endpoint(ipv=4, c_port=50000), P.Endpoint(ipv=4, c_port=50001)
                ba, kla, _ = _scenario_blocks(mods, "tls", SC.SymSrc("a."), epa)
                bb, klb, _ = _scenario_blocks(mods, "tls", SC.SymSrc("b."), epb)
                blocks = ba + bb
                mods["tlexport.keylog_reader"].get_keys_from_string = lambda text: P.keylog_objects(mods, kla + klb)
                argv = ["-i", "in.pcapng", "-o", "o.pcapng", "-s", "k.log"]
                one = _summ(RD.run_main(mods, argv, RD.RunEnv(mods, blocks, files={"k.log": ""})))
                two = _summ(RD.run_main(mods, argv, RD.RunEnv(mods, blocks, files={"k.log": ""})))
                c.check(True, "no-exception")
                c.check(_same(one, two) and len(one) >= 6, "schedule-independent", "two runs wrote %d and %d packets" % (len(one), len(two)))
                return {"outcome": "same", "validate": False}
            epa, epb = P.Endpoint(ipv=4, c_port=50000), P.Endpoint(ipv=4, c_port=50001)
            ba, kla, _ = _scenario_blocks(mods, cfg["first"], SC.SymSrc("a."), epa, dup_server_flight=cfg["first"] == "quic")
            bb, klb, _ = _scenario_blocks(mods, cfg["second"], SC.SymSrc("b."), epb)
            argv = ["-i", "in.pcapng", "-o", "o.pcapng", "-s", "k.log"]
            klr = mods["tlexport.keylog_reader"]
            klr.get_keys_from_string = lambda text: P.keylog_objects(mods, kla)
            RD.run_main(mods, argv, RD.RunEnv(mods, ba, files={"k.log": ""}))
            klr.get_keys_from_string = lambda text: P.keylog_objects(mods, klb)
            after = _summ(RD.run_main(mods, argv, RD.RunEnv(mods, bb, files={"k.log": ""}), reset_globals=False))
            # the reference: the second capture alone in the state of a new process (freshly imported modules)
            mods2 = P.setup_symbolic(fresh=True)
            mods2["tlexport.keylog_reader"].get_keys_from_string = lambda text: P.keylog_objects(mods2, klb)
            alone = _summ(RD.run_main(mods2, argv, RD.RunEnv(mods2, bb, files={"k.log": ""})))
        except (Exception, RD.ExitCalled) as e:
            import traceback
            c.fail("no-exception", "%s: %s %s" % (type(e).__name__, e, traceback.format_exc().splitlines()[-3:-1]))
            return {"outcome": "exception"}
        c.check(True, "no-exception")
        c.check(_same(alone, after) and len(alone) >= 3, "second-run-unaffected", "second run alone writes %d packets, after another run %d" % (len(alone), len(after)))
        return {"outcome": "same", "validate": False}
    return explore_cfg(scenario, cfg, timeout_ms=60000, sample_paths=1)


def replay(cfg, viol):
    h = cfg["harness"]
    if h == "setorder":
        # hash-seed dependence on the real program: the same capture under several PYTHONHASHSEED values
        from tlv import e2e
        from tlv.harness import pipeline as P, c02
        from tlv.oracle import scenario as SC, quic_scenario as QS
        dgrams, keylog, meta = QS.build(cfg, SC.ConcreteSrc(viol["inputs"]))
        ep = P.Endpoint(ipv=4)
        pk = e2e.concrete_udp_frames(ep, dgrams)
        want = [(d, bytes(s)) for d, s, t in c02.expected(dgrams)]
        bad = []
        for seed in ("0", "1", "2", "3", "7", "42"):
            r = e2e.run_tlexport(pk, e2e.keylog_text(keylog), env_extra={"PYTHONHASHSEED": seed})
            got = [(d, p) for d, p, t in e2e.udp_of(r, ep) if len(p) > 0]
            if got != want or r["problems"]:
                bad.append(seed)
        return {"reproduced": bool(bad), "hash_seeds_with_wrong_export": bad}
    if h == "rerun":
        return _replay_rerun(cfg, viol["inputs"])
    if h == "sched":
        return _replay_sched(cfg, viol["inputs"])
    if h == "env":
        return _replay_env(cfg, viol["inputs"])
    return {"reproduced": None, "why": "no concrete replay for the cwd harness (covered by C09 delivery replays)"}


def _replay_env(cfg, inp):
    """Real program: DSB with the first connection's secrets, no -s; empty environment vs SSLKEYLOGFILE (and friends) naming a key log
    with the second connection's secrets."""
    import os
    import tempfile
    import shutil
    from tlv import e2e
    from tlv.harness import pipeline as P
    from tlv.oracle import scenario as SC
    scfg = {"version": "TLS12", "suite": 0x009c, "suite_name": "TLS_RSA_WITH_AES_128_GCM_SHA256", "records": 2, "max_len": 1, "min_len": 1, "grouping": "one"}
    pk, kls = [], []
    for prefix, port in (("a.", 50000), ("b.", 50001)):
        items, keylog, _ = SC.build(scfg, SC.ConcreteSrc(inp, prefix=prefix))
        pk += e2e.concrete_frames(P.Endpoint(ipv=4, c_port=port), items)
        kls.append(keylog)
    d = tempfile.mkdtemp(prefix="tlv-env-")
    try:
        path = os.path.join(d, "env.log")
        open(path, "w").write(e2e.keylog_text(kls[1]))
        kw = dict(capture_kw={"dsbs": [e2e.keylog_text(kls[0]).encode()]})
        base_env = {k: None for k in ("SSLKEYLOGFILE", "TLEXPORT_KEYLOG", "KEYLOG")}
        a = e2e.run_tlexport(pk, None, env_extra={k: "" for k in ()}, **kw)
        b = e2e.run_tlexport(pk, None, env_extra={"SSLKEYLOGFILE": path, "TLEXPORT_KEYLOG": path, "KEYLOG": path, "TZ": "UTC", "LANG": "C"}, **kw)
        problems = list(a["problems"][:2]) + list(b["problems"][:2])
        fa = [(x.get("l4"), x.get("sport"), x.get("dport"), x.get("payload"), x["ts"][0]) for x in a["frames"]]
        fb = [(x.get("l4"), x.get("sport"), x.get("dport"), x.get("payload"), x["ts"][0]) for x in b["frames"]]
        if not problems and fa != fb:
            problems.append("%d packets exported with an empty environment, %d with SSLKEYLOGFILE set" % (len(fa), len(fb)))
        return {"reproduced": bool(problems), "problems": problems}
    finally:
        shutil.rmtree(d, ignore_errors=True)


def _replay_sched(cfg, inp):
    """The real program several times on the concrete two-connection capture: scheduling is not controllable from here, so a
    difference may need several runs to show (not reproduced within 12 runs -> inconclusive)."""
    from tlv import e2e
    from tlv.harness import pipeline as P
    from tlv.oracle import scenario as SC
    scfg = {"version": "TLS12", "suite": 0x009c, "suite_name": "TLS_RSA_WITH_AES_128_GCM_SHA256", "records": 2, "max_len": 1, "min_len": 1, "grouping": "one"}
    pk, kl = [], []
    # the two connections of the counterexample, and six more copies of them on other client ports: more tasks, more chances for the
    # scheduler to complete them in another order
    for rep in range(4):
        for prefix, port in (("a.", 50000 + 2 * rep), ("b.", 50001 + 2 * rep)):
            items, keylog, _ = SC.build(scfg, SC.ConcreteSrc(inp, prefix=prefix))
            pk += e2e.concrete_frames(P.Endpoint(ipv=4, c_port=port), items)
            kl += keylog if rep == 0 else []
    outs = set()
    for i in range(12):
        r = e2e.run_tlexport(pk, e2e.keylog_text(kl), switch_interval=1e-6 if i % 2 else None)
        if r["problems"]:
            return {"reproduced": True, "problems": r["problems"][:2]}
        outs.add(tuple((d.get("l4"), d.get("sport"), d.get("dport"), d.get("payload"), d["ts"][0]) for d in r["frames"]))
        if len(outs) > 1:
            break
    return {"reproduced": len(outs) > 1, "different_exports": len(outs), "runs": i + 1}


def _replay_rerun(cfg, inp):
    """Two real in-process runs of tlexport.main.run()."""
    import subprocess
    import os
    import json
    import tempfile
    import shutil
    from tlv import e2e
    from tlv.harness import pipeline as P
    from tlv.oracle import scenario as SC, quic_scenario as QS, pcapng

    def capture(proto, prefix, ep):
        src = SC.ConcreteSrc(inp, prefix=prefix)
        if proto == "tls":
            scfg = {"version": "TLS12", "suite": 0x009c, "suite_name": "TLS_RSA_WITH_AES_128_GCM_SHA256", "records": 2, "max_len": 1, "min_len": 1, "grouping": "one"}
            items, keylog, _ = SC.build(scfg, src)
            return e2e.concrete_frames(ep, items), keylog
        qcfg = {"suite": 0x1301, "offered": [0x1301], "odcid_len": 8, "c_cid_len": 4, "s_cid_len": 8, "n_app": 2, "data_len": 1,
                "retransmit_server_hello": prefix == "a."}          # the first capture ends with a retransmitted ServerHello
        dgrams, keylog, _ = QS.build(qcfg, src)
        return e2e.concrete_udp_frames(ep, dgrams), keylog
    d = tempfile.mkdtemp(prefix="tlv-rerun-")
    try:
        pa, ka = capture(cfg["first"], "a.", P.Endpoint(ipv=4, c_port=50000))
        pb, kb = capture(cfg["second"], "b.", P.Endpoint(ipv=4, c_port=50001))
        for nm, pk, kl in (("a", pa, ka), ("b", pb, kb)):
            pcapng.write_capture(os.path.join(d, nm + ".pcapng"), pk)
            open(os.path.join(d, nm + ".log"), "w").write(e2e.keylog_text(kl))
        # as in the symbolic harness both runs use the same command line: the files are replaced between the runs
        prog = ("import sys, shutil, tlexport.main as m\n"
                "def run(x):\n    shutil.copy(x + '.pcapng', 'in.pcapng'); shutil.copy(x + '.log', 'k.log')\n"
                "    sys.argv = ['tlexport', '-i', 'in.pcapng', '-o', 'o.pcapng', '-s', 'k.log']\n    m.run()\n"
                "mode = sys.argv[1]\n"
                "if mode == 'both': run('a')\n"
                "run('b')\n"
                "shutil.copy('o.pcapng', 'ob_' + mode + '.pcapng')\n")
        env = dict(os.environ)
        env["PYTHONPATH"] = e2e.REPO
        for mode in ("alone", "both"):
            p = subprocess.run([e2e.PY, "-W", "ignore", "-c", prog, mode], cwd=d, env=env, capture_output=True, text=True, timeout=120)
            if p.returncode != 0:
                return {"reproduced": True, "problems": ["exit status %d in mode %s: %s" % (p.returncode, mode, p.stderr.strip().splitlines()[-1:])]}
        a = open(os.path.join(d, "ob_alone.pcapng"), "rb").read()
        b = open(os.path.join(d, "ob_both.pcapng"), "rb").read()
        return {"reproduced": a != b, "bytes_alone": len(a), "bytes_after_other_run": len(b)}
    finally:
        shutil.rmtree(d, ignore_errors=True)


def validate(cfg, sample):
    return {"agree": True}
