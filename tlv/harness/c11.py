"""C11 - with -c exactly the packets with a bad transport checksum are ignored.

(a) leaf: tlexport.checksums.calculate_checksum_tcp / _udp / ones_complement_checksum on packets built by the real
    tlexport.packet.Packet from frames whose addresses and whole transport segment are symbolic; oracle = RFC 1071 receiver rule.
(b) wiring: the -c branches of main.run (see c11 'run' configurations) hand exactly the accepted packets on."""

VALIDATE = True
SITES = ["no-exception", "verdict-equals-rfc1071", "wiring-accepted-packets-only"]
MODELS = ["tlexport.packet.dpkt replaced by tlv/models/dpkt_model.py (spec parser, validated against real dpkt in the replay)",
          "frames: Ethernet II, IPv4 without or with options, no fragments / IPv6 without or with 8-byte extension headers, TCP data offset 5"]
ASSUMPTIONS = ["a UDP checksum field of 0x0000 ('not computed' in IPv4, illegal in IPv6) is neither right nor wrong: excluded",
               "a checksum is correct iff the RFC 1071 receiver sum over pseudo header and segment (field included) is 0xffff"]


def _lens(tier, proto):
    base = 20 if proto == "tcp" else 8
    if tier == "quick":
        return [base, base + 1, base + 2, base + 5, base + 6]
    return list(range(base, base + 25)) + [base + 40, base + 41, 64 + base]


def configs(tier, seed):
    out = []
    for ipv in (4, 6):
        for proto in ("tcp", "udp"):
            for n in _lens(tier, proto):
                out.append({"name": "leaf-ipv%d-%s-seg%d" % (ipv, proto, n), "harness": "leaf", "ipv": ipv, "proto": proto, "n": n})
            # bytes after the IP datagram (Ethernet padding of short frames, a captured frame check sequence) are not part of the segment
            for tr in ((4,) if tier == "quick" else (1, 4, 6)):
                n = _lens(tier, proto)[1]
                out.append({"name": "leaf-ipv%d-%s-seg%d-trailer%d" % (ipv, proto, n, tr), "harness": "leaf", "ipv": ipv, "proto": proto, "n": n, "trailer": tr})
    # IPv4 with options (IHL > 5): the pseudo header's length is that of the segment, whatever the header length
    for proto in ("tcp", "udp"):
        for on in ((4,) if tier == "quick" else (4, 8, 40)):
            n = _lens(tier, proto)[1]
            out.append({"name": "leaf-ipv4-%s-seg%d-options%d" % (proto, n, on), "harness": "leaf", "ipv": 4, "proto": proto, "n": n, "ip_options": on})
    # IPv6 with an extension header between the fixed header and the segment (the pseudo header names the upper-layer protocol)
    for proto in ("tcp", "udp"):
        for ext in (("dstopts",) if tier == "quick" else ("dstopts", "hopopts", "routing", "dstopts+dstopts")):
            n = _lens(tier, proto)[1]
            out.append({"name": "leaf-ipv6-%s-seg%d-%s" % (proto, n, ext), "harness": "leaf", "ipv": 6, "proto": proto, "n": n, "ext": ext})
    for proto in ("tls", "quic"):
        out.append({"name": "wiring-%s" % proto, "harness": "wiring", "proto": proto, "mode": "stub"})
    return out


def bounds(tier):
    return {"segment lengths": {"tcp": _lens(tier, "tcp"), "udp": _lens(tier, "udp")},
            "symbolic": "IP addresses and every byte of the transport segment except the TCP data-offset nibble (5)",
            "trailer": "4 (thorough: 1, 4, 6) arbitrary bytes after the IP datagram",
            "wiring": "TLS 1.2 and QUIC connection through main.run -c with a damaged copy of any one packet just before it",
            "ipv6 extension headers": "one destination-options header (thorough: hop-by-hop, routing, two headers) of 8 bytes",
            "ipv4 options": "4 (thorough: 4, 8, 40) option bytes",
            "outside": "longer segments; other IPv6 extension headers; more than one damaged packet per capture"}


def _build(cfg, src, dst, seg, trailer=None):
    from tlv.oracle import frames
    ipv6 = cfg["ipv"] == 6
    proto = 6 if cfg["proto"] == "tcp" else 17
    ext = b""
    first = proto
    if cfg.get("ext"):
        kinds = cfg["ext"].split("+")
        codes = {"dstopts": 60, "hopopts": 0, "routing": 43}
        first = codes[kinds[0]]
        for k, kind in enumerate(kinds):
            nxt = codes[kinds[k + 1]] if k + 1 < len(kinds) else proto
            ext += bytes([nxt, 0, 1, 4, 0, 0, 0, 0]) if kind != "routing" else bytes([nxt, 0, 0, 0, 0, 0, 0, 0])
    opts = (b"\x01" * (cfg["ip_options"] - 1) + b"\x00") if cfg.get("ip_options") else b""          # NOP ... end of option list
    fr = frames.ethernet(b"\x02\x00\x00\x00\x00\x02", b"\x02\x00\x00\x00\x00\x01", ipv6,
                         frames.ip_header(ipv6, src, dst, first, len(ext) + len(seg), options=opts) + ext + seg)
    return fr + trailer if trailer is not None and len(trailer) else fr


def _run_wiring(cfg):
    """main.run with -c: the verdict functions are replaced by a solver-chosen verdict per input packet (their correctness is the
    leaf harness); the capture contains, at a solver-chosen position, a damaged copy of a packet ahead of the intact one (what a
    retransmission after a bit error looks like).  The export must equal that of a run without -c on the packets with a good verdict."""
    from tlv.sx.core import ctx, sym_choice
    from tlv.harness import pipeline as P, c18, c02
    from tlv.harness.common import explore_cfg
    from tlv.oracle import scenario as SC, quic_scenario as QS
    mods = P.setup_symbolic()
    main = mods["tlexport.main"]

    def scenario():
        c = ctx()
        ep = P.Endpoint(ipv=4)
        if cfg["proto"] == "tls":
            scfg = {"version": "TLS12", "suite": 0x009c, "suite_name": "TLS_RSA_WITH_AES_128_GCM_SHA256", "records": 2, "max_len": 1, "min_len": 1, "grouping": "one"}
            items, keylog, meta = SC.build(scfg, SC.SymSrc())
            frames = [(f[0], f[1]) for f in P.tcp_frames(ep, items)]
        else:
            qcfg = {"suite": 0x1301, "offered": [0x1301], "odcid_len": 8, "c_cid_len": 4, "s_cid_len": 8, "n_app": 2, "data_len": 1}
            dgrams, keylog, meta = QS.build(qcfg, SC.SymSrc())
            c02.assume_cids_prefix_free(c, meta)
            c02.assume_no_accidental_cid(c, meta, dgrams)
            frames = [(f[0], f[1]) for f in P.udp_frames(ep, dgrams)]
        k = sym_choice("damaged_copy_of", list(range(len(frames))))
        # the damaged copy travels just before the intact packet (same addresses, ports, sequence number and length; other content)
        bad_ids = set()
        dmg = (frames[k][0], frames[k][1] - 0.5)
        seq = frames[:k] + [dmg] + frames[k:]
        bad_pos = k
        verdicts = {}

        def verdict(packet):
            return verdicts[id(packet.binary)] if id(packet.binary) in verdicts else True
        # the damaged copy needs its own frame object so that the verdict can tell it from the intact one
        from tlv.sx.symbytes import as_symbytes
        from tlv.sx.symbytes import sym_bytes
        from tlv.sx.core import sym_not
        orig = as_symbytes(frames[k][0])
        junk = sym_bytes("damage", 2)
        c.assume(sym_not(junk == orig[len(orig) - 2:]))
        dmg_frame = orig[:len(orig) - 2] + junk          # the last two payload bytes differ: processing it would change the export
        seq[bad_pos] = (dmg_frame, dmg[1])
        verdicts[id(dmg_frame)] = False
        saved = (main.calculate_checksum_tcp, main.calculate_checksum_udp)
        main.calculate_checksum_tcp = main.calculate_checksum_udp = verdict
        try:
            kl = P.keylog_objects(mods, keylog)
            with_c, _, _ = P.run_program(mods, seq, kl, ["-c"])
            with_c = c18._summ(with_c)
            without, _, _ = P.run_program(mods, frames, kl, [])
            without = c18._summ(without)
        except Exception as e:
            import traceback
            c.fail("no-exception", "%s: %s %s" % (type(e).__name__, e, traceback.format_exc().splitlines()[-3:-1]))
            return {"outcome": "exception"}
        finally:
            main.calculate_checksum_tcp, main.calculate_checksum_udp = saved
        c.check(True, "no-exception")
        c.check(c18._same(with_c, without) and len(without) >= 3, "wiring-accepted-packets-only",
                "with -c and a damaged copy of packet %d: %d packets written, without -c on the intact packets: %d" % (k, len(with_c), len(without)))
        return {"outcome": "same", "validate": False}
    return explore_cfg(scenario, cfg, timeout_ms=60000, sample_paths=1)


def _replay_wiring(cfg, inp):
    """Real program: the concrete capture with a really damaged copy (one payload bit flipped, checksum left as it was) before packet k,
    run with -c, against the intact capture without -c."""
    from tlv import e2e
    from tlv.harness import pipeline as P
    from tlv.oracle import scenario as SC, quic_scenario as QS
    ep = P.Endpoint(ipv=4)
    if cfg["proto"] == "tls":
        scfg = {"version": "TLS12", "suite": 0x009c, "suite_name": "TLS_RSA_WITH_AES_128_GCM_SHA256", "records": 2, "max_len": 1, "min_len": 1, "grouping": "one"}
        items, keylog, meta = SC.build(scfg, SC.ConcreteSrc(inp))
        pk = e2e.concrete_frames(ep, items)
    else:
        qcfg = {"suite": 0x1301, "offered": [0x1301], "odcid_len": 8, "c_cid_len": 4, "s_cid_len": 8, "n_app": 2, "data_len": 1}
        dgrams, keylog, meta = QS.build(qcfg, SC.ConcreteSrc(inp))
        pk = e2e.concrete_udp_frames(ep, dgrams)
    k = inp.get("damaged_copy_of", 0)
    fr, ts = pk[k]
    bad = fr[:-1] + bytes([fr[-1] ^ 0x10])
    seq = pk[:k] + [(bad, ts - 1)] + pk[k:]
    kt = e2e.keylog_text(keylog)
    a = e2e.run_tlexport(seq, kt, args=["-c"])
    b = e2e.run_tlexport(pk, kt)
    problems = list(a["problems"][:2]) + list(b["problems"][:2])
    fa = [(d.get("l4"), d.get("sport"), d.get("payload")) for d in a["frames"]]
    fb = [(d.get("l4"), d.get("sport"), d.get("payload")) for d in b["frames"]]
    if not problems and fa != fb:
        problems.append("with -c and a damaged copy of packet %d: %d packets exported, %d from the intact capture without -c" % (k, len(fa), len(fb)))
    return {"reproduced": bool(problems), "problems": problems}


def run_config(cfg):
    if cfg["harness"] == "wiring":
        return _run_wiring(cfg)
    from tlv.sx import core, shims
    from tlv.sx.core import ctx, sym_not, sym_and, sym_or
    from tlv.sx.symbytes import sym_bytes, mixed_bytes
    from tlv.harness.common import explore_cfg
    from tlv.models import dpkt_model
    from tlv.oracle import frames
    import tlexport.packet as tp
    import tlexport.checksums as cs
    shims.install(tp)
    shims.install(cs)
    tp.dpkt = dpkt_model.namespace()
    ipv6 = cfg["ipv"] == 6
    n = cfg["n"]

    def scenario():
        src = sym_bytes("src", 16 if ipv6 else 4)
        dst = sym_bytes("dst", 16 if ipv6 else 4)
        if cfg["proto"] == "tcp":
            seg = mixed_bytes("seg", [12, b"\x50", n - 13])
            proto = 6
            field = seg[16:18]
        else:
            seg = mixed_bytes("seg", [4, frames.u16(n), n - 6])
            proto = 17
            field = seg[6:8]
            if not ipv6:
                ctx().assume(sym_not(field == b"\x00\x00"))       # UDP/IPv4: 0 = no checksum computed (RFC 768), outside
        frame = _build(cfg, src, dst, seg, sym_bytes("trailer", cfg["trailer"]) if cfg.get("trailer") else None)
        pkt = tp.Packet(frame, 1.0)
        c = ctx()
        if cfg["proto"] == "tcp":
            assert pkt.tcp_packet
        else:
            assert pkt.udp_packet
        try:
            verdict = (cs.calculate_checksum_tcp if cfg["proto"] == "tcp" else cs.calculate_checksum_udp)(pkt)
        except Exception as e:
            c.fail("no-exception", "%s: %s" % (type(e).__name__, e))
            return {"outcome": "exception"}
        c.check(True, "no-exception")
        want = frames.receiver_accepts(ipv6, src, dst, proto, seg)
        if cfg["proto"] == "udp" and ipv6:
            # UDP/IPv6 has no "no checksum" value: a zero field with content that does not sum up is a bad packet like any other; the
            # one zero field the RFC 1071 rule would accept (a sender must transmit it as 0xffff, RFC 8200) stays outside
            from tlv.sx.core import sym_and as _and
            c.assume(sym_not(_and(field == b"\x00\x00", want)))
        c.check(verdict == want if not isinstance(verdict, bool) or not isinstance(want, bool) else verdict == want,
                "verdict-equals-rfc1071")
        return {"outcome": "verdict"}

    return explore_cfg(scenario, cfg, timeout_ms=120000, strategy="auto")


def _concrete(cfg, inp):
    """Real Packet + real dpkt + real checksums on the concrete frame."""
    import tlexport.packet as tp
    import tlexport.checksums as cs
    from tlv.oracle import frames
    from tlv.models import dpkt_model
    src, dst, seg = (bytes.fromhex(inp[k]) for k in ("src", "dst", "seg"))
    frame = _build(cfg, src, dst, seg, bytes.fromhex(inp.get("trailer", "")))
    pkt = tp.Packet(frame, 1.0)
    ipv6 = cfg["ipv"] == 6
    proto = 6 if cfg["proto"] == "tcp" else 17
    want = frames.receiver_accepts(ipv6, src, dst, proto, seg)
    # the dpkt model must agree with dpkt on this frame
    m = dpkt_model.Ethernet(frame)
    md = m.data.data
    rd = pkt.ip.data
    model_ok = (bytes(md) == bytes(rd) and md.sum == rd.sum and md.sport == rd.sport and len(md) == len(rd))
    try:
        got = (cs.calculate_checksum_tcp if cfg["proto"] == "tcp" else cs.calculate_checksum_udp)(pkt)
    except Exception as e:
        return {"ok": False, "why": "exception %s: %s" % (type(e).__name__, e), "expected": want, "model_ok": model_ok,
                "frame": frame.hex()}
    return {"ok": bool(got) == bool(want) and model_ok, "got": bool(got), "expected": bool(want), "model_ok": model_ok,
            "frame": frame.hex()}


def replay(cfg, viol):
    if cfg["harness"] == "wiring":
        return _replay_wiring(cfg, viol["inputs"])
    r = _concrete(cfg, viol["inputs"])
    return {"reproduced": not r["ok"] and r["model_ok"], **r}


def validate(cfg, sample):
    if cfg["harness"] == "wiring":
        return {"agree": True}
    r = _concrete(cfg, sample["inputs"])
    return {"agree": r["ok"], **r}
