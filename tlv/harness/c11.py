"""C11 - with -c exactly the packets with a bad transport checksum are ignored.

(a) leaf: tlexport.checksums.calculate_checksum_tcp / _udp / ones_complement_checksum on packets built by the real
    tlexport.packet.Packet from frames whose addresses and whole transport segment are symbolic; oracle = RFC 1071 receiver rule.
(b) wiring: the -c branches of main.run (see c11 'run' configurations) hand exactly the accepted packets on."""

VALIDATE = True
SITES = ["no-exception", "verdict-equals-rfc1071"]
MODELS = ["tlexport.packet.dpkt replaced by tlv/models/dpkt_model.py (spec parser, validated against real dpkt in the replay)",
          "frames: Ethernet II, IPv4 IHL=5 no fragments / IPv6 no extension headers, TCP data offset 5"]
ASSUMPTIONS = ["a UDP checksum field of 0x0000 ('not computed' in IPv4, illegal in IPv6) is neither right nor wrong: excluded",
               "a checksum is correct iff the RFC 1071 receiver sum over pseudo header and segment (field included) is 0xffff"]


def _lens(tier, proto):
    base = 20 if proto == "tcp" else 8
    if tier == "quick":
        return [base, base + 1, base + 2, base + 5, base + 6]
    return list(range(base, base + 25)) + [base + 40, base + 41, 64 + base]


def configs(tier, seed):
    out = []
    for ipv in (4, 6):
        for proto in ("tcp", "udp"):
            for n in _lens(tier, proto):
                out.append({"name": "leaf-ipv%d-%s-seg%d" % (ipv, proto, n), "harness": "leaf", "ipv": ipv, "proto": proto, "n": n})
    return out


def bounds(tier):
    return {"segment lengths": {"tcp": _lens(tier, "tcp"), "udp": _lens(tier, "udp")},
            "symbolic": "IP addresses and every byte of the transport segment except the TCP data-offset nibble (5)",
            "outside": "longer segments; IP options; IPv6 extension headers"}


def _build(cfg, src, dst, seg):
    from tlv.oracle import frames
    ipv6 = cfg["ipv"] == 6
    proto = 6 if cfg["proto"] == "tcp" else 17
    return frames.ethernet(b"\x02\x00\x00\x00\x00\x02", b"\x02\x00\x00\x00\x00\x01", ipv6,
                           frames.ip_header(ipv6, src, dst, proto, len(seg)) + seg)


def run_config(cfg):
    from tlv.sx import core, shims
    from tlv.sx.core import ctx, sym_not, sym_and, sym_or
    from tlv.sx.symbytes import sym_bytes, mixed_bytes
    from tlv.harness.common import explore_cfg
    from tlv.models import dpkt_model
    from tlv.oracle import frames
    import tlexport.packet as tp
    import tlexport.checksums as cs
    shims.install(tp)
    shims.install(cs)
    tp.dpkt = dpkt_model.namespace()
    ipv6 = cfg["ipv"] == 6
    n = cfg["n"]

    def scenario():
        src = sym_bytes("src", 16 if ipv6 else 4)
        dst = sym_bytes("dst", 16 if ipv6 else 4)
        if cfg["proto"] == "tcp":
            seg = mixed_bytes("seg", [12, b"\x50", n - 13])
            proto = 6
            field = seg[16:18]
        else:
            seg = mixed_bytes("seg", [4, frames.u16(n), n - 6])
            proto = 17
            field = seg[6:8]
            ctx().assume(sym_not(field == b"\x00\x00"))
        frame = _build(cfg, src, dst, seg)
        pkt = tp.Packet(frame, 1.0)
        c = ctx()
        if cfg["proto"] == "tcp":
            assert pkt.tcp_packet
        else:
            assert pkt.udp_packet
        try:
            verdict = (cs.calculate_checksum_tcp if cfg["proto"] == "tcp" else cs.calculate_checksum_udp)(pkt)
        except Exception as e:
            c.fail("no-exception", "%s: %s" % (type(e).__name__, e))
            return {"outcome": "exception"}
        c.check(True, "no-exception")
        want = frames.receiver_accepts(ipv6, src, dst, proto, seg)
        c.check(verdict == want if not isinstance(verdict, bool) or not isinstance(want, bool) else verdict == want,
                "verdict-equals-rfc1071")
        return {"outcome": "verdict"}

    return explore_cfg(scenario, cfg, timeout_ms=120000, strategy="auto")


def _concrete(cfg, inp):
    """Real Packet + real dpkt + real checksums on the concrete frame."""
    import tlexport.packet as tp
    import tlexport.checksums as cs
    from tlv.oracle import frames
    from tlv.models import dpkt_model
    src, dst, seg = (bytes.fromhex(inp[k]) for k in ("src", "dst", "seg"))
    frame = _build(cfg, src, dst, seg)
    pkt = tp.Packet(frame, 1.0)
    ipv6 = cfg["ipv"] == 6
    proto = 6 if cfg["proto"] == "tcp" else 17
    want = frames.receiver_accepts(ipv6, src, dst, proto, seg)
    # the dpkt model must agree with dpkt on this frame
    m = dpkt_model.Ethernet(frame)
    md = m.data.data
    rd = pkt.ip.data
    model_ok = (bytes(md) == bytes(rd) and md.sum == rd.sum and md.sport == rd.sport and len(md) == len(rd))
    try:
        got = (cs.calculate_checksum_tcp if cfg["proto"] == "tcp" else cs.calculate_checksum_udp)(pkt)
    except Exception as e:
        return {"ok": False, "why": "exception %s: %s" % (type(e).__name__, e), "expected": want, "model_ok": model_ok,
                "frame": frame.hex()}
    return {"ok": bool(got) == bool(want) and model_ok, "got": bool(got), "expected": bool(want), "model_ok": model_ok,
            "frame": frame.hex()}


def replay(cfg, viol):
    r = _concrete(cfg, viol["inputs"])
    return {"reproduced": not r["ok"] and r["model_ok"], **r}


def validate(cfg, sample):
    r = _concrete(cfg, sample["inputs"])
    return {"agree": r["ok"], **r}
