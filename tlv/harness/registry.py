"""Claimed checks (MANIFEST.json is generated from this by bin/mkmanifest.py)."""
TRUST = ("Trusted: CPython 3.12 running the repository's byte code, z3 5.1, the sx proxies/shims (validated against native "
         "execution on every run), the RFC oracles in tlv/oracle. ")
CHECKS = {
    "C16": {
        "technique": "symbolic execution of get_full_packet_number (z3 bit-vectors, IEEE double rounding modelled exactly), one inductive step from an arbitrary state; the number handed to the AEAD by decrypt_packet with symbolic key phases",
        "text": "Bounded-exhaustive: for every value of all six largest-packet-number slots in [0,2^62), every truncated value and "
                "every encoded length 1-4, packet type and direction, z3 shows that the returned number equals RFC 9000 A.3 and that "
                "only the packet's own slot changes, to max(old, result). One step from an arbitrary state covers histories of any "
                "length with gaps and reordering. No bound other than the property's own domain.",
        "note": TRUST + "The session object is built without __init__ (no I/O); a slot value 0 stands for both 'nothing received' and 'packet 0 received'.",
    },
}
CHECKS["C11"] = {
    "technique": "symbolic execution of calculate_checksum_tcp/udp and ones_complement_checksum on packets parsed by the real Packet class; verdict compared with the RFC 1071 receiver rule by z3; main.run -c (stub reader/writer) with a solver-placed damaged copy of a packet, compared with the run without -c (self-composition)",
    "text": "For every IPv4/IPv6 address pair and every byte of a TCP or UDP segment of the stated lengths (odd and even), z3 shows "
            "that the checksum routines return without exception and accept exactly the packets whose RFC 1071 receiver sum is "
            "0xffff; every carry/fold boundary (sums of exactly 0x10000, fields 0x0000/0xffff) is inside the symbolic domain.",
    "note": TRUST + "dpkt is replaced by a spec-level parser (tlv/models/dpkt_model.py), compared with real dpkt on every replayed/validated frame. "
            "UDP checksum field 0 is outside the claim over IPv4 (RFC 768: no checksum computed); over IPv6 it is inside, except the one zero field the RFC 1071 receiver rule accepts. Segment lengths are bounded as listed in the evidence.",
}
CHECKS["C17"] = {
    "technique": "symbolic execution of parse_frames and every frame class: one loop iteration on arbitrary bytes (inductive step), whole loop on all short strings, and a reference encoder with symbolic 62-bit fields and symbolic var-int widths; an exhausted per-path decision budget inside the parser is replayed as a non-termination candidate",
    "text": "z3 decides, for one iteration of the real parse_frames loop on arbitrary bytes of the stated length, that the iteration "
            "raises or consumes >= 1 byte and yields data that are slices of the payload (so the loop runs at most len(payload) times); "
            "the whole loop is explored on every byte string up to the stated length; and for every RFC 9000/9221 frame type, every "
            "var-int width combination within the bound and all field values, the parsed frame equals the encoded one and consumes "
            "exactly its bytes whatever follows.",
    "note": TRUST + "The continuation slice of the loop is intercepted to observe one iteration; sequences follow because the loop is stateless. "
            "Consecutive PADDING frames count as one. Bounds in the evidence file.",
}
CHECKS["C14"] = {
    "technique": "symbolic execution of split_cipher_suite on a symbolic 16-bit id with a solver-decided table lookup; result compared with a frozen registry copy and an independent name parser",
    "text": "Exhaustive over all 65536 code points: the lookup forks once per table entry and once for 'absent'; on every path the "
            "name must be the registry's name for that code point and the resolved cipher class, AEAD flag, key length, hash and tag "
            "length must equal what an independent parser derives from the name; the 'absent' path must cover exactly the ids "
            "outside the table and return 'unsupported'.",
    "note": TRUST + "Registry copy: spec/iana_tls_cipher_suites.json (scapy 2.7.0 table + RFC 6655/8442/8492), cross-checked against openssl -stdname on every run.",
}
CHECKS["C05"] = {
    "technique": "symbolic execution of Session reassembly (handle_packet, get_tls_records, extract_*_buf, TlsRecord) with solver-chosen cut points, duplicate or coalesced retransmission, displacement and a symbolic 32-bit initial sequence number; whole connections through main.run with 1/2/5-byte segments",
    "text": "For record streams within the bound with every content byte symbolic, z3 explores every set of cut points, every "
            "placement of one exact duplicate, every displacement of one segment and every initial sequence number (including "
            "streams crossing 2^32) and shows that the records handed to the record layer are exactly the records sent, per "
            "direction and in order. One defect is recorded as a known finding and its paths are excluded.",
    "note": TRUST + "Packets are duck-typed stubs; the record layer is replaced by a recorder. Bounds in the evidence file.",
}
CHECKS["C01"] = {
    "technique": "symbolic execution of the whole TLS-over-TCP path (main.run with stub reader/writer, Packet, main.handle_packet, Session, key_derivator, Decryptor, OutputBuilder) against RFC reference endpoints under an ideal-cryptography model, plus one inductive record step from an arbitrary cipher state",
    "text": "For every behaviour class of TLExport's suite table in every version it is valid for, several handshake shapes and a "
            "history of application records whose contents, lengths, directions, randoms, secrets, IVs/nonces and ciphertexts are "
            "symbolic, z3 shows that the exported TCP payload per direction equals the application data sent; a second harness "
            "proves, per decrypt method, that one record from an arbitrary cipher state (any 64-bit sequence number, CBC residue, "
            "RC4 position, TLS 1.3 epoch) decrypts to the sent plaintext and advances the state as the RFC does, which extends the "
            "bounded histories to any length. Sampled passing paths are re-run end to end on the real program with real cryptography.",
    "note": TRUST + "cryptography is replaced by an ideal model (uninterpreted hashes/PRFs/permutations/key streams, AEAD event table), scapy "
            "by recorder classes, dpkt by a spec parser; correctness of OpenSSL-backed primitives and scapy serialisation is trusted "
            "(exercised only by the validated end-to-end replays). One record per TCP segment here; segmentation is C05.",
}
CHECKS["C15"] = {
    "technique": "symbolic execution of the key-installation path (handshake parsing, generate_keys, key_derivator, Decryptor.parse_keys) with hashes/HMAC/HKDF as uninterpreted functions; installed keys compared with a reference key schedule by z3 (QF_UFBV); module-level caches get solver-decided lookups and are exercised by connection pairs in one process",
    "text": "For every (cipher, MAC) class of the table in every version it is valid for and both key-log labels, with all secrets and "
            "randoms symbolic, z3 shows that each key, IV and MAC secret installed in the Decryptor equals the RFC key schedule's "
            "value under every interpretation of the hash primitives, hence under the real ones. Sampled instances are recomputed "
            "with real hashes on the real code.",
    "note": TRUST + "Primitives are arbitrary functions; their bit-level correctness (OpenSSL) is trusted. QUIC: QuicSession.keys and every key-update generation of QuicSession.decryptors are compared with RFC 9001 (initial, handshake, 0-RTT, 1-RTT, header protection, 'quic ku').",
}
CHECKS["C13"] = {
    "technique": "self-composition under symbolic execution: each TLS scenario runs with and without metadata export inside one path and z3 compares the two outputs",
    "text": "QUIC: for the C02 scenarios the stream data of the plain export reappears in order inside the -a export. TLS: for the C01 pipeline scenarios (all versions, every handshake shape, symbolic contents) the packets of the plain export "
            "appear in the -a export in the same order with the same payloads, every additional packet carries a handshake/CCS/alert "
            "record or decrypted handshake message of the scenario, and the ClientHello/ServerHello records appear verbatim.",
    "note": TRUST + "Ideal cryptography / recorder scapy / dpkt model as in C01/C02. QUIC: the stream data of the plain export must be found, in order and direction, as contiguous runs inside the -a datagrams.",
}
CHECKS["C08"] = {
    "technique": "self-composition under symbolic execution: the pipeline runs on packets[:j] and on all packets with a solver-chosen cut index j; z3 decides the byte-prefix relation; the same for the session reassembly under duplicated / coalesced / displaced segments",
    "text": "For the C01 (TLS) and C02 (QUIC) scenarios, with one record per segment and with records cut into small segments, and for every cut "
            "index j, the export of the truncated capture is, per direction, a byte-prefix of the export of the full capture.",
    "note": TRUST + "Models as in C01/C02 (TLS and QUIC scenarios).",
}
CHECKS["C10"] = {
    "technique": "symbolic execution of main.handle_packet / Session / OutputBuilder / QuicSession.build_output / QUICOutputbuilder with symbolic ports, symbolic -p ports and a symbolic port map; real argparse on the syntax axis; main.run end to end with stub reader/writer",
    "text": "For all 16-bit source/destination ports and -p ports z3 shows that a TCP session is created iff one side uses a default or "
            "selected server port and that side becomes the server; for all server/client ports, all port maps within the bound and both "
            "values of keep_original_ports every packet emitted by the TLS and the QUIC output builder carries original / mapped / 8080 "
            "as server port and the unchanged client port. Every documented spelling of -m/-p goes through the real argparse, and "
            "main.run is exercised end to end for representative option sets.",
    "note": TRUST + "The port map is a solver-decided mapping object instead of a dict (same override order). Reader/writer/file system are stubs in the wiring harness.",
}
CHECKS["C02"] = {
    "technique": "symbolic execution of the whole QUIC path (main.run with stub reader/writer, main.handle_quic_packet, QuicSession, dissector, header-protection removal, packet-number decoding, QuicDecryptor, frame and TLS-message parsing, key installation and update, QUICOutputbuilder) against RFC 9000/9001 reference endpoints under an ideal-cryptography model",
    "text": "For each of the four QUIC suites and a set of connection shapes (coalescing, frame mixes, several streams, STREAM without "
            "length, packet-number lengths and gaps, ClientHello split over CRYPTO frames/packets out of order, one and two key "
            "updates, NEW_CONNECTION_ID switch, Retry, 0-RTT, other suite offered first, key-log order, connection-id lengths "
            "including zero) with randoms, secrets, connection ids, stream data and every ciphertext byte symbolic, z3 shows that "
            "the non-empty exported UDP payloads equal the STREAM data sent, datagram by datagram and direction by direction. "
            "Sampled passing paths are re-run end to end on the real program with real cryptography.",
    "note": TRUST + "Ideal AEAD, header-protection masks and HKDF as uninterpreted functions; connection ids assumed prefix-free and not "
            "spelled by ciphertext bytes; packet numbers are concrete sequences here (C16 covers reconstruction over the full range). Bounds in the evidence.",
}
CHECKS["C07"] = {
    "technique": "symbolic execution of the TLS and QUIC pipelines with symbolic MAC/IP addresses, client port and one symbolic capture time per input packet; microsecond round trip decided in a rounding-error (half an ulp per operation) real-arithmetic model of the timestamp computation recorded from an execution of the real reader on recording variables",
    "text": "With all addresses, the client port and every capture time symbolic, and records cut into small segments, z3 shows that "
            "every exported TLS packet is oriented sender -> receiver with the connection's MAC/IP/ports, carries the time of an "
            "input packet that overlapped the same record, and the synthetic handshake the first record's time; for QUIC each "
            "exported datagram carries the direction and time of its input datagram. The reader's timestamp expression (taken from "
            "dpkt_dsb.py by ast) composed with dpkt's writer returns the same microsecond tick for every tick below 2^51.",
    "note": TRUST + "Models as in C01/C02; capture times are opaque integers inside the pipeline; the float lemma bounds every rounding by half an ulp of the result's binade and claims nothing at or above 2^51 microseconds.",
}
CHECKS["C06"] = {
    "technique": "symbolic execution of OutputBuilder on records of symbolic length (abstract byte strings; floor(n/k) justified by a cvc5-proved floating-point lemma), of main.run on connections whose multi-segment records interleave in every order (an in-file-order receiver checks sequence numbers and acknowledgements), of main.run's writer loop with stub reader/writer, plus strict independent reading of sampled real outputs",
    "text": "For records of every length below 2^15+2^11 carried by 1..K input packets in any directions, z3 shows that the export "
            "opens with SYN / SYN-ACK / ACK stamped with the first record's time, that each record is re-split into at most k "
            "contiguous parts that cover it exactly, that sequence numbers are gap-free and non-overlapping per direction and every "
            "acknowledgement equals the peer's bytes so far. The writer loop is shown to receive only complete Ether/IP/TCP-or-UDP "
            "frames with a capture time for decryptable and undecryptable input. Sampled real outputs are parsed by an independent "
            "strict pcapng reader that verifies block structure, length fields, checksums and TCP reassembly.",
    "note": TRUST + "Byte-level serialisation and checksums are produced by scapy/dpkt and are checked only on the concrete samples (not decided symbolically). Lemma L1 is discharged by cvc5 on every run for each divisor used.",
}
CHECKS["C09"] = {
    "technique": "z3 regular-expression inclusion for the key-log line filter lifted from the source; symbolic execution of the TLS/QUIC key consumers under solver-chosen permutations/decorations of the key log; main.run with the secrets delivered by file / DSBs / both, with os.path.exists symbolic; DecryptionSecretBlock.unpack on blocks with symbolic content",
    "text": "z3 decides that every NSS key log line (all labels, either hex case, any secret length) is accepted by the regular "
            "expression in get_key_from_line and that its three fields are what Key extracts; for TLS <=1.2, TLS 1.3 and QUIC "
            "connections every permutation of the key-log entries, a duplicate and unrelated entries give the same export; and "
            "main.run produces identical writer calls whether the secrets arrive in a file (LF or CRLF, comments, blank and unrelated "
            "lines, upper-case hex), in one or several decryption-secrets blocks, before or (TLS) after the packets, combined with a "
            "file, or as the only source without -s from any working directory.",
    "note": TRUST + "Models as in C01/C02. In the delivery harness secrets are concrete (they travel as text) and application data symbolic; the capture reader and file system are stubs (dpkt's DSB block parsing is C12's subject).",
}
CHECKS["C18"] = {
    "technique": "symbolic execution with every environment choice as a solver variable: iteration order of the connection-id sets, completion order of concurrent.futures tasks, content of the process environment, existence of files in the working directory, and an earlier in-process run compared with a run in freshly imported modules (self-composition of main.run)",
    "text": "z3 shows that the QUIC export is the same (and correct) whatever order the connection-id sets are iterated in at each "
            "iteration (the only hash-order dependent containers), that main.run's writer calls do not depend on which files exist "
            "in the working directory, and that a run gives the same writer calls after another run in the same process as alone "
            "(TLS/QUIC in all four combinations).",
    "note": TRUST + "Sets are replaced by a class whose iteration order is solver-chosen among identity, reversal and rotations; reader/writer/file system are stubs; models as in C01/C02.",
}
CHECKS["C12"] = {
    "technique": "symbolic execution of dpkt_dsb.Reader on a block-level model of the pcapng file with symbolic block fields; tick scaling decided in a rounding-error (half an ulp per operation) real-arithmetic model of the computation recorded from the real reader; main.run -l wiring; concrete container variants through the real program",
    "text": "For both byte orders, EPB and PB, a foreign block of any type at every position and DSBs, with tick words, if_tsresol (all 256 "
            "values) and if_tsoffset symbolic, z3 shows that the reader yields exactly the packet and DSB blocks in order with untouched "
            "payloads, uses the classes and formats of the file's byte order and computes if_tsoffset + ticks / 10^k or 2^k; that an "
            "instant which is a whole microsecond below 2^51 is written back as that microsecond for resolutions 10^-3, 10^-6, 10^-9, "
            "2^-10, 2^-20; and that -l feeds dpkt.pcap.Reader's pairs through the same loop. The same capture is then exported from 12 "
            "real container variants (incl. legacy pcap) and compared.",
    "note": TRUST + "dpkt's struct-level block parsing (third-party) is replaced by a block-level model in the symbolic harness and exercised only concretely by the container variants; multiple sections/interfaces are outside the claim.",
}
CHECKS["C04"] = {
    "technique": "symbolic execution of main.handle_packet / handle_quic_packet and the session classes on two connections merged by a solver-chosen interleaving, with solver-chosen endpoint aliasing and key-log order; compared with each connection's solo run (self-composition)",
    "text": "For TLS+TLS, QUIC+QUIC and TLS+QUIC pairs, every order-preserving interleaving of the two packet sequences, every aliasing "
            "pattern of the endpoints within the bound (same hosts / other client port, same client towards another server, one's client "
            "on the other's server host), both server ports, both key-log orders and symbolic connection contents (randoms, secrets, "
            "connection ids incl. zero-length, data, ciphertexts), z3 shows that every TLS session holds the packets of exactly one "
            "connection and that each connection's export equals its export when alone.",
    "note": TRUST + "Models as C01/C02. Two connections; endpoint values are fixed constants combined per aliasing pattern (so address comparisons do not fork); non-empty connection ids of different connections are assumed not to be prefixes of each other.",
}
CHECKS["C03"] = {
    "technique": "symbolic execution of main.run (stub reader/writer) on arbitrary UDP/TCP payloads and on healthy TLS/QUIC victims with one solver-chosen fault next to a healthy bystander; bystander output compared with its solo run (self-composition), victim output with the plaintext sent",
    "text": "z3 explores every value of UDP datagrams of 1..7 bytes (alone or after a complete QUIC connection from the same or another "
            "address) and of short TCP payloads to port 443, and for TLS 1.0-CBC / 1.1-RC4 / 1.2-GCM / 1.3 and QUIC victims every position "
            "of a deleted packet, a shortened payload, an overwritten payload byte, every subset of removed key-log lines, unrelated secrets "
            "and an unknown ServerHello suite id: main.run always returns, the bystander's export equals its solo export, and for "
            "information-removing faults the victim's exported stream is a prefix of what it sent. Two known findings (packet loss with "
            "non-AEAD suites; QUIC loss) are reported as such and their paths excluded.",
    "note": TRUST + "Ideal cryptography incl. collision-free KDFs and rejection of forged AEAD ciphertexts; overwrite faults on record-type/version bytes, "
            "wrong keys / overwrites for the CBC victim and (quick tier) for QUIC are outside the bound because garbage lengths fork without limit; bounds in the evidence.",
}
NOT_APPLICABLE = {}
