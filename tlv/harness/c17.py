"""C17 - QUIC frames are parsed exactly; arbitrary bytes cannot hang the parser.

step : one iteration of the real parse_frames loop on N arbitrary bytes (inductive step for termination / no invention)
loop : the whole parse_frames loop on every byte string of length <= L
enc  : one iteration on encode(frame) || arbitrary suffix, all frame types, symbolic 62-bit field values, symbolic var-int widths
seq  : whole parse_frames on sequences of encoded frames"""
import os

VALIDATE = True
SITES = ["progress>=1", "one-frame-per-iteration", "data-is-slice-of-payload", "loop-terminates",
         "enc-class", "enc-length", "enc-consumed", "enc-fields", "seq-count", "seq-lengths-sum"]
MODELS = ["payload: SymBytes subclass that ends the parse_frames loop after the first iteration (the continuation slice "
          "payload[frame_length:] is intercepted and recorded) - used by the step/enc harnesses only",
          "src_packet: opaque object"]
ASSUMPTIONS = ["a run of consecutive PADDING frames counts as one frame (the parser merges them; every byte is still accounted once)",
               "per-iteration results extend to sequences because the loop keeps no state besides the remaining payload"]

KNOWN_TYPES = [(0x00,), (0x01,), (0x02,), (0x03,), (0x04,), (0x05,), (0x06,), (0x07,),
               (0x08, 0x09, 0x0a, 0x0b, 0x0c, 0x0d, 0x0e, 0x0f), (0x10,), (0x11,), (0x12, 0x13), (0x14,), (0x15,), (0x16, 0x17),
               (0x18,), (0x19,), (0x1a,), (0x1b,), (0x1c, 0x1d), (0x1e,), (0x30, 0x31)]
BYTES_ATTRS = ["crypto", "stream_data", "token", "connection_id", "stateless_reset_token", "data", "reason_phrase", "payload"]


def _tier(tier):
    if tier == "quick":
        return {"step_n": 8, "loop_n": 3, "suffix": 2, "data": 2, "seq": 2}
    return {"step_n": 11, "loop_n": 5, "suffix": 3, "data": 4, "seq": 3}


def configs(tier, seed):
    from tlv.oracle.quicframes import FRAMES
    T = _tier(tier)
    out = []
    for tt in KNOWN_TYPES:
        n = T["step_n"]
        if tt[0] in (0x02, 0x03):
            n = min(n, 8 if tier == "quick" else 9)
        out.append({"name": "step-%02x" % tt[0], "harness": "step", "types": list(tt), "n": n, "mode": "real"})
    out.append({"name": "step-generic", "harness": "step", "types": None, "n": min(T["step_n"], 8), "mode": "real"})
    for L in range(0, T["loop_n"] + 1):
        out.append({"name": "loop-%d" % L, "harness": "loop", "n": L, "mode": "real"})
    for name in FRAMES:
        modes = ["head", "ranges"] + (["ecn"] if name == "ACK_ECN" else []) if name.startswith("ACK") else [None]
        for am in modes:
            out.append({"name": "enc-" + name + ("-" + am if am else ""), "harness": "enc", "frame": name, "suffix": T["suffix"],
                        "data": T["data"], "mode": "real", "seed": seed, "tier": tier, "ack_mode": am})
    import random
    rnd = random.Random(seed)
    names = sorted(FRAMES)
    pairs = []
    for a in names:
        pairs.append([a, rnd.choice(names)])
        pairs.append([rnd.choice(names), a])
    if T["seq"] >= 3:
        for a in names:
            pairs.append([rnd.choice(names), a, rnd.choice(names)])
    for i, p in enumerate(pairs):
        out.append({"name": "seq-%d-%s" % (i, "+".join(p)), "harness": "seq", "frames": p, "data": 1, "mode": "real", "seed": seed + i})
    return out


def bounds(tier):
    T = _tier(tier)
    return {"step": "first byte: every value; following %d bytes arbitrary (ACK: 8-9)" % (T["step_n"] - 1),
            "loop": "every byte string of length <= %d" % T["loop_n"],
            "enc": "every frame type of RFC 9000/9221; field values over the full range of their encoding width; every "
                   "combination of var-int widths 1/2/4/8 for frames with <= 4 var-ints, per-field width variation for ACK ranges/ECN; "
                   "data fields <= %d bytes; arbitrary %d-byte suffix" % (T["data"], T["suffix"]),
            "seq": "%d-frame sequences, one per frame type in each position, partner frames chosen by VERIF_SEED" % T["seq"],
            "outside": "arbitrary inputs longer than the step bound; ACK frames with more than 2 ranges"}


def _is_stream(name):
    return name.startswith("STREAM_0")


class _Src:
    isserver = False


def _install():
    from tlv.sx import shims
    import tlexport.quic.quic_frame as qf
    import tlexport.quic.quic_decode as qd
    shims.install(qf)
    shims.install(qd)
    return qf


def _probe_class():
    import sys
    from tlv.sx.symbytes import SymBytes

    class ProbeBytes(SymBytes):
        """Ends the parse_frames loop after one iteration and records how much the iteration consumed."""

        def __init__(self, elements=()):
            super().__init__(elements)
            self.consumed = None

        def _new(self, elements):
            return SymBytes(elements)

        def __getitem__(self, i):
            if isinstance(i, slice) and i.stop is None and i.step is None and sys._getframe(1).f_code.co_name == "parse_frames":
                self.consumed = i.start
                return SymBytes([])
            return super().__getitem__(i)
    return ProbeBytes


def _is_slice_of(attr, payload_e):
    """attr elements are, by identity, a contiguous run of the payload's elements."""
    from tlv.sx.symbytes import elements_of
    ae = elements_of(attr)
    if ae is None:
        return False
    if not ae:
        return True
    for start in range(len(payload_e)):
        if payload_e[start] is ae[0] or (isinstance(ae[0], int) and payload_e[start] == ae[0]):
            if len(ae) <= len(payload_e) - start and all(
                    (payload_e[start + k] is ae[k]) or (isinstance(ae[k], int) and payload_e[start + k] == ae[k])
                    for k in range(len(ae))):
                return True
    return False


def run_config(cfg):
    from tlv.harness.common import explore_cfg
    h = cfg["harness"]
    fn = {"step": _run_step, "loop": _run_loop, "enc": _run_enc, "seq": _run_seq}[h]
    return fn(cfg)


def _run_step(cfg):
    from tlv.sx.core import ctx, sym_or, sym_not, sym_and, BudgetExceeded
    from tlv.sx.symbytes import sym_bytes
    from tlv.harness.common import explore_cfg
    qf = _install()
    Probe = _probe_class()
    n = cfg["n"]

    def scenario():
        c = ctx()
        raw = sym_bytes("payload", n)
        b0 = raw[0]
        if cfg["types"] is not None:
            c.assume(sym_or(*[b0 == t for t in cfg["types"]]))
        else:
            c.assume(sym_and(*[sym_not(b0 == t) for tt in KNOWN_TYPES for t in tt]))
        payload = Probe(raw.e)
        try:
            frames = qf.parse_frames(payload, _Src())
        except BudgetExceeded:
            # more branch decisions on one path than any terminating parse of n bytes makes: candidate for non-termination,
            # decided by the replay (real parser on the concrete bytes under a time limit)
            c.fail("loop-terminates", "decision budget of one path exhausted inside parse_frames")
            return {"outcome": "budget"}
        except Exception as e:
            return {"outcome": "error:" + type(e).__name__}
        c.check(len(frames) == 1, "one-frame-per-iteration")
        fr = frames[0]
        c.check(payload.consumed is not None and payload.consumed >= 1, "progress>=1")
        ok = True
        for a in BYTES_ATTRS:
            if hasattr(fr, a):
                v = getattr(fr, a)
                if v is not None and not _is_slice_of(v, raw.e):
                    ok = False
        c.check(ok, "data-is-slice-of-payload")
        return {"outcome": type(fr).__name__}
    return explore_cfg(scenario, cfg, timeout_ms=60000, max_paths=400000)


class _Hang(Exception):
    pass


def _run_loop(cfg):
    import signal
    from tlv.sx.core import ctx, BudgetExceeded
    from tlv.sx.symbytes import sym_bytes
    from tlv.harness.common import explore_cfg
    qf = _install()
    n = cfg["n"]

    def on_alarm(sig, frm):
        raise _Hang()
    signal.signal(signal.SIGALRM, on_alarm)

    def scenario():
        c = ctx()
        payload = sym_bytes("payload", n)
        signal.alarm(20)
        try:
            frames = qf.parse_frames(payload, _Src())
            out = "frames:%d" % len(frames)
        except _Hang:
            c.fail("loop-terminates", "no result after 20 s on one path")
            return {"outcome": "hang"}
        except BudgetExceeded:
            signal.alarm(0)
            c.fail("loop-terminates", "decision budget of one path exhausted inside parse_frames")
            return {"outcome": "budget"}
        except Exception as e:
            out = "error:" + type(e).__name__
        finally:
            signal.alarm(0)
        c.check(True, "loop-terminates")
        return {"outcome": out}
    return explore_cfg(scenario, cfg, timeout_ms=60000, max_paths=400000, max_decisions=2000)


def _frame_inputs(cfg, name, idx, data_n, all_widths):
    """Symbolic field values and solver-chosen widths for one frame."""
    import random
    from tlv.sx.core import sym_int, sym_choice, record_const
    from tlv.sx.symbytes import sym_bytes
    from tlv.oracle.quicframes import FRAMES
    rnd = random.Random("%s-%s-%s" % (cfg.get("seed", 0), name, idx))
    t, fields = FRAMES[name]
    values, widths = {}, {}
    nvi = sum(1 for f in fields if f[0] in ("vi", "len", "cnt"))
    pfx = "f%d." % idx

    def width(key, vary):
        if vary:
            return sym_choice(pfx + "w." + key, [1, 2, 4, 8])
        w = rnd.choice([1, 2, 4, 8])
        record_const(pfx + "w." + key, [1, 2, 4, 8].index(w))
        return w
    am = cfg.get("ack_mode")
    vary_all = all_widths and nvi <= 4
    if name.startswith("ACK"):
        vary_all = all_widths and am == "head"
    for f in fields:
        kind = f[0]
        if kind == "vi":
            w = width(f[1], (vary_all and not f[1].startswith("ect")) or (all_widths and am == "ecn" and f[1].startswith("ect")))
            widths[f[1]] = w
            values[f[1]] = sym_int(pfx + f[1], 0, (1 << (8 * w - 2)) - 1)
        elif kind in ("len", "cnt"):
            key = f[1] or ("len:" + f[2])
            widths[key] = width(key, vary_all)
        elif kind == "bytes":
            if name.startswith("ACK"):
                continue
            n = sym_choice(pfx + "n." + f[1], list(range(0, data_n + 1))) if all_widths else rnd.randrange(0, data_n + 1)
            values[f[1]] = sym_bytes(pfx + f[1], n)
        elif kind == "rest":
            n = data_n
            values[f[1]] = sym_bytes(pfx + f[1], n)
        elif kind == "fixed":
            values[f[1]] = sym_bytes(pfx + f[1], f[2])
        elif kind == "ranges":
            if all_widths and am == "ranges":
                cnt = sym_choice(pfx + "n.ranges", [1, 2]) + 0
                record_const(pfx + "n.ranges.base", 1)
            else:
                cnt = 0 if all_widths else rnd.randrange(0, 3)
                record_const(pfx + "n.ranges", cnt)
            rs, ws = [], []
            for k in range(cnt):
                wg = width("gap%d" % k, all_widths and am == "ranges")
                wl = width("len%d" % k, all_widths and am == "ranges")
                rs.append((sym_int(pfx + "gap%d" % k, 0, (1 << (8 * wg - 2)) - 1), sym_int(pfx + "rlen%d" % k, 0, (1 << (8 * wl - 2)) - 1)))
                ws.append((wg, wl))
            values[f[1]] = rs
            widths[f[1]] = ws
    return values, widths


def _expect_fields(c, fr, name, values, label):
    """Compare the parsed frame with the encoded values; returns list of symbolic/bool conditions."""
    from tlv.oracle.quicframes import FRAMES
    from tlv.sx.symbytes import as_symbytes
    t, fields = FRAMES[name]
    conds = []
    for f in fields:
        kind = f[0]
        if kind == "vi":
            conds.append(getattr(fr, f[1], None) == values[f[1]])
        elif kind in ("len", "u8len") and f[1]:
            conds.append(getattr(fr, f[1], None) == len(values[f[2]]))
        elif kind == "cnt":
            conds.append(getattr(fr, f[1], None) == len(values[f[2]]))
        elif kind in ("bytes", "rest", "fixed"):
            got = getattr(fr, f[1], None)
            conds.append(got is not None and (as_symbytes(got) == values[f[1]]))
        elif kind == "ranges":
            got = getattr(fr, f[1], None)
            if got is None or len(got) != len(values[f[1]]):
                conds.append(False)
            else:
                for (g, l), (eg, el) in zip(got, values[f[1]]):
                    conds.append(g == eg)
                    conds.append(l == el)
    if _is_stream(name):
        conds.append(fr.fin == bool(t & 1))
        if not (t & 4):
            conds.append(fr.offset == 0)
        conds.append(fr.data_length == len(values["stream_data"]))
        conds.append(fr.frame_type == t)
    if name in ("ACK", "ACK_ECN", "MAX_STREAMS_BIDI", "MAX_STREAMS_UNI", "STREAMS_BLOCKED_BIDI", "STREAMS_BLOCKED_UNI",
                "CONNECTION_CLOSE", "CONNECTION_CLOSE_APP", "DATAGRAM", "DATAGRAM_LEN"):
        conds.append(fr.frame_type == t)
    return conds


def _run_enc(cfg):
    from tlv.sx.core import ctx, sym_and, sym_not
    from tlv.sx.symbytes import sym_bytes, as_symbytes
    from tlv.harness.common import explore_cfg
    from tlv.oracle import quicframes as Q
    qf = _install()
    Probe = _probe_class()
    name = cfg["frame"]

    def scenario():
        c = ctx()
        values, widths = _frame_inputs(cfg, name, 0, cfg["data"], True)
        enc = as_symbytes(Q.encode(name, values, widths))
        has_rest = any(f[0] == "rest" for f in Q.FRAMES[name][1])
        k = 0 if has_rest else cfg["suffix"]
        suffix = sym_bytes("suffix", k)
        if name == "PADDING" and k:
            c.assume(sym_not(suffix[0] == 0))
        payload = Probe(enc.e + suffix.e)
        try:
            frames = qf.parse_frames(payload, _Src())
        except Exception as e:
            c.fail("enc-class", "exception %s: %s" % (type(e).__name__, e))
            return {"outcome": "exception"}
        fr = frames[0]
        c.check(type(fr).__name__ == Q.CLASS_OF[name], "enc-class")
        c.check(fr.length == len(enc), "enc-length")
        c.check(payload.consumed == len(enc), "enc-consumed")
        c.check(sym_and(*_expect_fields(c, fr, name, values, "enc-fields")), "enc-fields")
        return {"outcome": "parsed", "encoded_len": len(enc)}
    return explore_cfg(scenario, cfg, timeout_ms=60000, max_paths=400000)


def _run_seq(cfg):
    from tlv.sx.core import ctx, sym_and
    from tlv.sx.symbytes import as_symbytes, SymBytes
    from tlv.harness.common import explore_cfg
    from tlv.oracle import quicframes as Q
    qf = _install()
    names = cfg["frames"]

    def scenario():
        c = ctx()
        encs, vals = [], []
        els = []
        for i, name in enumerate(names):
            values, widths = _frame_inputs(cfg, name, i, cfg["data"], False)
            last = i == len(names) - 1
            if any(f[0] == "rest" for f in Q.FRAMES[name][1]) and not last:
                # a frame extending to the end of the packet can only be last: swap in its explicit-length sibling
                name = {"DATAGRAM": "DATAGRAM_LEN"}.get(name, "STREAM_%02x" % (Q.FRAMES[name][0] | 2) if _is_stream(name) else name)
                values, widths = _frame_inputs(cfg, name, i, cfg["data"], False)
            e = as_symbytes(Q.encode(name, values, widths))
            encs.append((name, e))
            vals.append(values)
            els += e.e
        # merge consecutive PADDING frames (the parser reports a run as one frame)
        expect = []
        for (name, e), v in zip(encs, vals):
            if name == "PADDING" and expect and expect[-1][0] == "PADDING":
                expect[-1] = ("PADDING", expect[-1][1] + len(e), v)
            else:
                expect.append((name, len(e), v))
        try:
            frames = qf.parse_frames(SymBytes(els), _Src())
        except Exception as e:
            c.fail("seq-count", "exception %s: %s" % (type(e).__name__, e))
            return {"outcome": "exception"}
        if not c.check(len(frames) == len(expect), "seq-count"):
            return {"outcome": "count"}
        conds = []
        for fr, (name, ln, v) in zip(frames, expect):
            conds.append(type(fr).__name__ == Q.CLASS_OF[name])
            conds.append(fr.length == ln)
            conds += _expect_fields(c, fr, name, v, "seq")
        c.check(sym_and(*conds), "seq-lengths-sum")
        return {"outcome": "parsed %d frames" % len(frames)}
    return explore_cfg(scenario, cfg, timeout_ms=60000)


# ---- concrete replays on the real code ------------------------------------------------------------------------------------

def _concrete_payload(cfg, inp):
    """Rebuild the payload bytes and the expectation from concrete inputs."""
    from tlv.oracle import quicframes as Q
    h = cfg["harness"]
    if h in ("step", "loop"):
        return bytes.fromhex(inp["payload"]), None
    names = [cfg["frame"]] if h == "enc" else cfg["frames"]
    out = b""
    expect = []
    for i, name in enumerate(names):
        pfx = "f%d." % i
        last = i == len(names) - 1
        if h == "seq" and any(f[0] == "rest" for f in Q.FRAMES[name][1]) and not last:
            name = {"DATAGRAM": "DATAGRAM_LEN"}.get(name, "STREAM_%02x" % (Q.FRAMES[name][0] | 2) if _is_stream(name) else name)
        t, fields = Q.FRAMES[name]
        values, widths = {}, {}
        for f in fields:
            kind = f[0]
            if kind == "vi":
                widths[f[1]] = [1, 2, 4, 8][inp[pfx + "w." + f[1]]]
                values[f[1]] = inp[pfx + f[1]]
            elif kind in ("len", "cnt"):
                key = f[1] or ("len:" + f[2])
                widths[key] = [1, 2, 4, 8][inp[pfx + "w." + key]]
            elif kind in ("bytes", "rest", "fixed"):
                if name.startswith("ACK"):
                    continue
                values[f[1]] = bytes.fromhex(inp.get(pfx + f[1], ""))
            elif kind == "ranges":
                cnt = inp[pfx + "n.ranges"] + inp.get(pfx + "n.ranges.base", 0)
                values[f[1]] = [(inp[pfx + "gap%d" % k], inp[pfx + "rlen%d" % k]) for k in range(cnt)]
                widths[f[1]] = [([1, 2, 4, 8][inp[pfx + "w.gap%d" % k]], [1, 2, 4, 8][inp[pfx + "w.len%d" % k]]) for k in range(cnt)]
        e = Q.encode(name, values, widths)
        out += e
        if name == "PADDING" and expect and expect[-1][0] == "PADDING":
            expect[-1] = ("PADDING", expect[-1][1] + len(e), values)
        else:
            expect.append((name, len(e), values))
    if h == "enc":
        out += bytes.fromhex(inp.get("suffix", ""))
    return out, expect


def _concrete(cfg, inp):
    import signal
    import tlexport.quic.quic_frame as qf
    from tlv.oracle import quicframes as Q
    payload, expect = _concrete_payload(cfg, inp)

    def on_alarm(sig, frm):
        raise _Hang()
    signal.signal(signal.SIGALRM, on_alarm)
    signal.alarm(10)
    try:
        frames = qf.parse_frames(payload, _Src())
    except _Hang:
        return {"ok": False, "why": "parse_frames did not return within 10 s", "payload": payload.hex()}
    except Exception as e:
        if expect is None:
            return {"ok": True, "outcome": "error " + type(e).__name__, "payload": payload.hex()}
        return {"ok": False, "why": "exception %s: %s" % (type(e).__name__, e), "payload": payload.hex()}
    finally:
        signal.alarm(0)
    problems = []
    for fr in frames:
        if not (isinstance(fr.length, int) and fr.length >= 1):
            problems.append("frame length %r" % (fr.length,))
        for a in BYTES_ATTRS:
            v = getattr(fr, a, None)
            if v is not None and bytes(v) not in payload:
                problems.append("%s not taken from the payload" % a)
    if expect is not None:
        if cfg["harness"] == "enc":
            frames = frames[:1]
        if len(frames) != len(expect):
            problems.append("parsed %d frames, sent %d" % (len(frames), len(expect)))
        else:
            for fr, (name, ln, v) in zip(frames, expect):
                conds = [type(fr).__name__ == Q.CLASS_OF[name], fr.length == ln] + _expect_fields(None, fr, name, v, "")
                if not all(bool(x) for x in conds):
                    problems.append("frame %s parsed as %s length %s (sent %d bytes): %r" % (
                        name, type(fr).__name__, fr.length, ln, {k: (x.hex() if isinstance(x, (bytes, bytearray)) else x)
                                                                  for k, x in vars(fr).items() if k != "src_packet"}))
    return {"ok": not problems, "problems": problems, "payload": payload.hex()}


def replay(cfg, viol):
    r = _concrete(cfg, viol["inputs"])
    return {"reproduced": not r["ok"], **r}


def validate(cfg, sample):
    r = _concrete(cfg, sample["inputs"])
    return {"agree": r["ok"], **r}
