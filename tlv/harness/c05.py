"""C05 - export is independent of TCP segmentation, retransmission and reordering.

Executes Session.__init__/handle_packet (dedupe)/get_tls_records/extract_client_buf/extract_server_buf/TlsRecord on a record
stream with symbolic content, cut at solver-chosen positions, with a duplicated segment, a displaced segment and a symbolic
initial sequence number over the whole 32-bit space.  Observation point: the records handed to handle_tls_record."""

VALIDATE = True
SITES = ["no-exception", "records-complete", "records-equal-sent", "direction-flag", "client-stream-equals-sent", "server-stream-equals-sent"]
MODELS = ["packets: duck-typed objects with the attributes of tlexport.packet.Packet (Packet itself is covered by C07/C11)",
          "Session.handle_tls_record replaced on the instance by a recorder (the record layer is the observation point)"]
ASSUMPTIONS = ["segments are non-empty (main.run drops empty TCP payloads before Session sees them)",
               "a duplicate is an exact retransmission (same sequence number, same bytes)"]


LONGDUP_N = {"quick": 300, "thorough": 1500}
LONGDUP_ISN = 0xFFFFFC00   # concrete: the N segments cross 2^32 (a symbolic ISN is covered by the other configurations)


def _tier(tier):
    if tier == "quick":
        return {"R": 2, "P": 2, "cuts": 2, "dups": 1, "disp": 1}
    return {"R": 3, "P": 2, "cuts": 3, "dups": 1, "disp": 2}


def configs(tier, seed):
    T = _tier(tier)
    out = []
    for main_dir in ("server", "client"):
        for transform in ("cuts", "cuts+dup", "cuts+reorder", "cuts+coalesced"):
            for isn in ("any", "near-wrap"):
                for nrec in range(1, T["R"] + 1):
                    for ncuts in range(1 if transform == "cuts+coalesced" else 0, T["cuts"] + 1):
                        if nrec + ncuts > 4:
                            continue          # 3 records with 2-3 cuts (and 2 with 3): hours per configuration
                        out.append({"name": "%s-%s-%s-r%d-c%d" % (main_dir, transform, isn, nrec, ncuts), "harness": "segmentation",
                                    "main": main_dir, "transform": transform, "isn": isn, "mode": "real", "nrec": nrec,
                                    "ncuts": ncuts, **T})
    if tier == "quick":
        # a segment captured behind two later ones (the quick tier displaces by one place otherwise)
        for main_dir in ("server", "client"):
            T2 = dict(T, disp=2)
            out.append({"name": "%s-cuts+reorder-any-r2-c2-disp2" % main_dir, "harness": "segmentation", "main": main_dir, "transform": "cuts+reorder", "isn": "any",
                        "mode": "real", "nrec": 2, "ncuts": 2, **T2})
        # four segments, one of them captured behind two later ones (record lengths pinned to keep the plan space small)
        for main_dir in ("server", "client"):
            T3 = dict(T, disp=2, cuts=3)
            out.append({"name": "%s-cuts+reorder-any-r2-c3-disp2-len2" % main_dir, "harness": "segmentation", "main": main_dir, "transform": "cuts+reorder", "isn": "any",
                        "mode": "real", "nrec": 2, "ncuts": 3, "fixed": {"len0": 2, "len1": 2, "move_dist": 2}, **T3})
    # an exact duplicate captured a long way behind its original: N one-record segments, then a retransmission of a solver-chosen one of
    # them (a duplicate filter that forgets, e.g. a bounded window, lets it back into the reassembly buffer)
    for main_dir in ("server", "client"):
        out.append({"name": "%s-longdup" % main_dir, "harness": "longdup", "main": main_dir, "mode": "real", "n": LONGDUP_N[tier]})
    # the whole program (main.run -> Session -> builder) on connections whose every TCP segment carries s bytes: single bytes, records
    # spanning many segments, a record's last byte alone in a segment
    from tlv.harness import c01
    base = {c["name"]: c for c in c01.configs(tier, seed) if c["harness"] == "pipeline"}
    picks = [n for n in base if n.endswith("-segmented")]
    for n in picks[:3 if tier == "quick" else len(picks)]:
        for s in ((1, 2, 5) if tier == "quick" else (1, 2, 3, 5, 7)):
            cc = dict(base[n])
            cc.update(harness="program", name="program-%s-%dbyte-segments" % (n.replace("-segmented", ""), s), seg_size=s, records=2, min_len=1, max_len=2, mode="stub")
            out.append(cc)
    return out


def bounds(tier):
    T = _tier(tier)
    return {"records in the stream under test": "<= %d, payload 0..%d bytes each, every type/version/content byte symbolic" % (T["R"], T["P"]),
            "cut points": "every set of <= %d cut points (solver-chosen, all positions); records + cuts <= 4" % T["cuts"],
            "duplicates": "<= %d exact duplicate of any segment re-inserted at any later position; or one coalesced retransmission (a segment together "
                          "with its successor in one packet, same sequence number as the first) at any position after the first of the two" % T["dups"],
            "reordering": "one segment displaced by <= %d places within its direction" % T["disp"],
            "ISN": "whole 32-bit space; 'near-wrap' configurations constrain it so that the stream crosses 2^32",
            "program": "3 connections (thorough: one per cipher family and version) through main.run with every segment of 1, 2 or 5 bytes (thorough: 1, 2, 3, 5, 7)",
            "long-distance duplicate": "%d one-record segments (content bytes symbolic), then an exact duplicate of a solver-chosen one of them, then two more "
                                       "segments; concrete ISN 0x%x (the stream crosses 2^32)" % (LONGDUP_N[tier], LONGDUP_ISN),
            "other direction": "one record in one segment at a solver-chosen position of the interleaving",
            "outside": "retransmissions that start inside an earlier segment or arrive before the data they repeat, keep-alives, more than one transformation at once"}


class Pkt:
    ipv6_packet = False
    tcp_packet = True
    udp_packet = False

    def __init__(self, from_server, seq, data, ts, tag):
        S = (b"\x0a\x00\x00\x02", 443, b"\x02\x00\x00\x00\x00\x02")
        C = (b"\x0a\x00\x00\x01", 50000, b"\x02\x00\x00\x00\x00\x01")
        a, b = (S, C) if from_server else (C, S)
        self.ip_src, self.sport, self.ethernet_src = a
        self.ip_dst, self.dport, self.ethernet_dst = b
        self.seq = seq
        self.ack = 0
        self.tls_data = data
        self.timestamp = ts
        self.tag = tag


def _plan(cfg, choose):
    """Everything structural is chosen through `choose(name, options)` (solver in symbolic mode, recorded inputs in replay)."""
    R, P = cfg["R"], cfg["P"]
    if cfg.get("fixed"):
        inner, fixed = choose, cfg["fixed"]

        def choose(name, options):          # noqa: some structural choices of this configuration are pinned
            return inner(name, [fixed[name]] if name in fixed and fixed[name] in options else options)
    nrec = choose("nrec", [cfg["nrec"]] if "nrec" in cfg else list(range(1, R + 1)))
    lens = [choose("len%d" % i, list(range(0, P + 1))) for i in range(nrec)]
    total = sum(5 + n for n in lens)
    ncuts = choose("ncuts", [cfg["ncuts"]] if "ncuts" in cfg else list(range(0, cfg["cuts"] + 1)))
    cuts = []
    lo = 1
    for i in range(ncuts):
        # strictly increasing cut positions inside the stream -> non-empty segments
        opts = list(range(lo, total - (ncuts - 1 - i)))
        if not opts:
            break
        c = choose("cut%d" % i, opts)
        cuts.append(c)
        lo = c + 1
    bounds_ = [0] + cuts + [total]
    segs = [(bounds_[i], bounds_[i + 1]) for i in range(len(bounds_) - 1)]
    order = list(range(len(segs)))          # indices into segs, in delivery order
    if cfg["transform"] == "cuts+dup":
        which = choose("dup_which", list(range(len(segs))))
        pos = choose("dup_pos", list(range(which + 1, len(order) + 1)))
        order.insert(pos, which)
    elif cfg["transform"] == "cuts+coalesced" and len(segs) >= 2:
        # a retransmission that carries segment `which` and its successor in one packet: index len(segs) + which
        which = choose("co_which", list(range(len(segs) - 1)))
        pos = choose("co_pos", list(range(which + 1, len(order) + 1)))
        order.insert(pos, len(segs) + which)
    elif cfg["transform"] == "cuts+reorder" and len(segs) >= 2:
        which = choose("move_which", list(range(len(segs))))
        dist = choose("move_dist", [d for d in range(-cfg["disp"], cfg["disp"] + 1) if d != 0 and 0 <= which + d < len(segs)] or [0])
        order.pop(which)
        order.insert(which + dist, which)
    other_pos = choose("other_pos", list(range(0, len(order) + 1)))
    return nrec, lens, total, segs, order, other_pos


def seg_range(segs, si):
    """byte range of delivery unit si: a segment, or (si >= len(segs)) the coalesced retransmission of a segment and its successor"""
    if si >= len(segs):
        return segs[si - len(segs)][0], segs[si - len(segs) + 1][1]
    return segs[si]


def _build(cfg, plan, rec_bytes, other_bytes, isn_main, isn_other):
    """-> list of packets in capture order"""
    nrec, lens, total, segs, order, other_pos = plan
    main_server = cfg["main"] == "server"
    stream = rec_bytes[0]
    for r in rec_bytes[1:]:
        stream = stream + r
    pkts = []
    for k, si in enumerate(order):
        a, b = seg_range(segs, si)
        seq = (isn_main + a) & 0xFFFFFFFF
        pkts.append(Pkt(main_server, seq, stream[a:b], 100.0 + k, "main%d" % si))
    pkts.insert(other_pos, Pkt(not main_server, isn_other & 0xFFFFFFFF, other_bytes, 99.5, "other"))
    return pkts


def _run_session(pkts):
    import tlexport.session as ts
    got = []
    s = ts.Session(pkts[0], [443], [], {}, True, False)
    step = [0]
    es, ec = s.extract_server_buf, s.extract_client_buf

    def wrap(f):
        def g():
            step[0] += 1
            return f()
        return g
    s.extract_server_buf, s.extract_client_buf = wrap(es), wrap(ec)

    def rec(record, isserver):
        record.step = step[0]
        got.append((record, isserver))
    s.handle_tls_record = rec
    for p in pkts[1:]:
        s.handle_packet(p)
    s.get_tls_records()
    return s, got


def _ooo_event(s, got, plan, main_server):
    """Known finding: a record was cut out of a buffer that began with a segment whose predecessor bytes had not arrived yet."""
    nrec, lens, total, segs, order, other_pos = plan
    processed = list(s.packet_buffer)     # capture order, exact duplicates already dropped
    for r, _ in got:
        if not r.metadata or not r.metadata[0].tag.startswith("main"):
            continue
        first = r.metadata[0]
        start = seg_range(segs, int(first.tag[4:]))[0]
        seen = set()
        for p in processed[:r.step]:
            if p.tag.startswith("main"):
                a, b = seg_range(segs, int(p.tag[4:]))
                seen.update(range(a, b))
        if any(o not in seen for o in range(0, start)):
            return True
    return False


def run_config(cfg):
    if cfg["harness"] == "program":
        from tlv.harness import c01
        r = c01.run_config(cfg)
        return r
    from tlv.sx import shims
    if cfg["harness"] == "longdup":
        import tlexport.session as ts
        import tlexport.tlsrecord as tr
        shims.install(ts)
        shims.install(tr)
        return _run_longdup(cfg)
    from tlv.sx.core import ctx, sym_int, sym_choice, sym_and
    from tlv.sx.symbytes import sym_bytes, mixed_bytes, as_symbytes
    from tlv.harness.common import explore_cfg
    import tlexport.session as ts
    import tlexport.tlsrecord as tr
    shims.install(ts)
    shims.install(tr)

    def scenario():
        c = ctx()
        plan = _plan(cfg, sym_choice)
        nrec, lens, total, segs, order, other_pos = plan
        recs = [mixed_bytes("rec%d" % i, [3, (lens[i]).to_bytes(2, "big"), lens[i]]) for i in range(nrec)]
        other = mixed_bytes("other", [3, b"\x00\x01", 1])
        isn = sym_int("isn", 0, (1 << 32) - 1)
        if cfg["isn"] == "near-wrap":
            c.assume(isn > (1 << 32) - 1 - total)
        isn_o = sym_int("isn_other", 0, (1 << 32) - 1)
        pkts = _build(cfg, plan, recs, other, isn, isn_o)
        try:
            s, got = _run_session(pkts)
        except Exception as e:
            c.fail("no-exception", "%s: %s" % (type(e).__name__, e))
            return {"outcome": "exception"}
        c.check(True, "no-exception")
        main_server = cfg["main"] == "server"
        if _ooo_event(s, got, plan, main_server):
            c.known("ooo-segment-parsed-as-record-start")
            return {"outcome": "known-finding", "validate": False}
        mine = [(r, f) for r, f in got if _from_main(r, main_server)]
        theirs = [(r, f) for r, f in got if not _from_main(r, main_server)]
        if not c.check(len(mine) == nrec and len(theirs) == 1, "records-complete",
                       "delivered %d+%d records, sent %d+1" % (len(mine), len(theirs), nrec)):
            return {"outcome": "incomplete"}
        conds = [as_symbytes(r.raw) == e for (r, _), e in zip(mine, recs)] + [as_symbytes(theirs[0][0].raw) == other]
        c.check(sym_and(*conds), "records-equal-sent")
        c.check(all(f == main_server for _, f in mine) and theirs[0][1] == (not main_server), "direction-flag")
        return {"outcome": "ok", "segments": len(order)}
    return explore_cfg(scenario, cfg, timeout_ms=60000, max_paths=300000, sample_paths=2)


def _longdup_pkts(cfg, recs, dup_seq, dup_data, other):
    main_server = cfg["main"] == "server"
    n = cfg["n"]
    pkts = [Pkt(not main_server, 5000, other, 99.5, "other")]
    for i in range(n):
        if i == n - 2:
            pkts.append(Pkt(main_server, dup_seq, dup_data, 100.0 + i - 0.5, "maindup"))
        pkts.append(Pkt(main_server, (LONGDUP_ISN + 6 * i) & 0xFFFFFFFF, recs[i], 100.0 + i, "main%d" % i))
    return pkts


def _run_longdup(cfg):
    from tlv.sx.core import ctx, sym_int, sym_and, implies
    from tlv.sx.symbytes import mixed_bytes, as_symbytes
    from tlv.harness.common import explore_cfg
    n = cfg["n"]
    hdr = bytes([0x17, 3, 3, 0, 1])

    def scenario():
        c = ctx()
        recs = [mixed_bytes("r%d" % i, [hdr, 1]) for i in range(n)]
        other = mixed_bytes("other", [hdr, 1])
        idx = sym_int("dup_of", 0, n - 3)
        dup = mixed_bytes("dup", [hdr, 1])
        for i in range(n - 2):
            c.assume(implies(idx == i, dup[5] == recs[i][5]))
        dup_seq = (idx * 6 + LONGDUP_ISN) & 0xFFFFFFFF
        pkts = _longdup_pkts(cfg, recs, dup_seq, dup, other)
        try:
            s, got = _run_session(pkts)
        except Exception as e:
            c.fail("no-exception", "%s: %s" % (type(e).__name__, e))
            return {"outcome": "exception"}
        c.check(True, "no-exception")
        main_server = cfg["main"] == "server"
        mine = [(r, f) for r, f in got if f == main_server]
        theirs = [(r, f) for r, f in got if f != main_server]
        if not c.check(len(mine) == n and len(theirs) == 1, "records-complete", "delivered %d+%d records, sent %d+1" % (len(mine), len(theirs), n)):
            return {"outcome": "incomplete"}
        c.check(sym_and(*[as_symbytes(r.raw) == e for (r, _), e in zip(mine, recs)], as_symbytes(theirs[0][0].raw) == other), "records-equal-sent")
        c.check(True, "direction-flag")
        return {"outcome": "ok", "segments": n + 1}
    return explore_cfg(scenario, cfg, timeout_ms=60000, max_paths=300000, max_decisions=5 * n + 1000, sample_paths=2)


def _concrete_longdup(cfg, inp):
    n = cfg["n"]
    recs = [bytes.fromhex(inp["r%d" % i]) for i in range(n)]
    other = bytes.fromhex(inp["other"])
    k = inp["dup_of"]
    pkts = _longdup_pkts(cfg, recs, (LONGDUP_ISN + 6 * k) & 0xFFFFFFFF, recs[k], other)
    main_server = cfg["main"] == "server"
    try:
        s, got = _run_session(pkts)
    except Exception as e:
        return {"ok": False, "why": "exception %s: %s" % (type(e).__name__, e)}
    mine = [bytes(r.raw) for r, f in got if f == main_server]
    theirs = [bytes(r.raw) for r, f in got if f != main_server]
    return {"ok": mine == recs and theirs == [other], "dup_of": k, "delivered_records": len(mine), "sent_records": n}


def _from_main(record, main_server):
    tags = [p.tag for p in record.metadata]
    return all(t.startswith("main") for t in tags) and bool(tags)


def _concrete(cfg, inp):
    def choose(name, options):
        return options[inp[name]] if len(options) > 1 else options[0]
    plan = _plan(cfg, choose)
    nrec, lens, total, segs, order, other_pos = plan
    recs = [bytes.fromhex(inp["rec%d" % i]) for i in range(nrec)]
    other = bytes.fromhex(inp["other"])
    pkts = _build(cfg, plan, recs, other, inp["isn"], inp["isn_other"])
    main_server = cfg["main"] == "server"
    try:
        s, got = _run_session(pkts)
    except Exception as e:
        return {"ok": False, "why": "exception %s: %s" % (type(e).__name__, e)}
    mine = [bytes(r.raw) for r, f in got if _from_main(r, main_server)]
    theirs = [bytes(r.raw) for r, f in got if not _from_main(r, main_server)]
    flags_ok = all((f == main_server) == _from_main(r, main_server) for r, f in got)
    ok = mine == recs and theirs == [other] and flags_ok
    return {"ok": ok, "ooo_event": _ooo_event(s, got, plan, main_server), "delivered": [x.hex() for x in mine], "sent": [x.hex() for x in recs], "other": [x.hex() for x in theirs],
            "segments": [(p.tag, p.seq, bytes(p.tls_data).hex()) for p in pkts], "isn": inp["isn"], "total": total}


def replay(cfg, viol):
    if cfg["harness"] == "program":
        from tlv.harness import c01
        r = c01.concrete(cfg, viol["inputs"])
        return {"reproduced": not r["ok"], **r}
    r = _concrete_longdup(cfg, viol["inputs"]) if cfg["harness"] == "longdup" else _concrete(cfg, viol["inputs"])
    return {"reproduced": not r["ok"], **r}


def validate(cfg, sample):
    if cfg["harness"] == "program":
        from tlv.harness import c01
        r = c01.concrete(cfg, sample["inputs"])
        return {"agree": r["ok"], **r}
    r = _concrete_longdup(cfg, sample["inputs"]) if cfg["harness"] == "longdup" else _concrete(cfg, sample["inputs"])
    return {"agree": r["ok"], **r}
