"""C09 - the export depends only on which secrets are supplied, not on how.

regex    : the regular expression literal of keylog_reader.get_key_from_line is lifted from the source (ast + re._parser) into a z3
           regular expression; z3 decides  NSS-key-log-line language  subset of  accepted language (prefix match semantics).
fields   : Key.__init__'s field extraction (split on ' ') is checked on the whole line language with z3 strings.
consumers: TLS and QUIC pipelines with the key-log entries permuted (solver-chosen permutation), duplicated and mixed with
           unrelated entries: the export must equal the canonical one.
dsbblock : DecryptionSecretBlock.unpack on a block with symbolic content and every secrets length 0..9 (thorough 0..24): the text handed
           on is exactly the secrets bytes (no padding), options are parsed after the padding.
delivery : main.run with the same secrets in a file, in one or several decryption-secrets blocks, before or after the packets,
           file + DSB, DSB only without -s from any working directory (os.path.exists symbolic), LF/CRLF, comments, blank lines,
           upper-case hex: identical writer calls."""
import random

VALIDATE = False
SITES = ["regex-recognised", "nss-lines-accepted", "fields-extracted", "no-exception", "consumers-order-independent", "delivery-independent", "dsb-secrets-exact"]
MODELS = ["z3 regular expressions / sequences for the line language", "ideal cryptography etc. as C01/C02 for the consumer and delivery harnesses",
          "file system and capture reader stubbed in the delivery harness; os.path.exists of the default key-log path is a symbolic boolean"]
ASSUMPTIONS = ["NSS key log line = label, one space, 64 hex digits, one space, an even number >= 2 of hex digits, either case",
               "labels: " + ", ".join(["RSA", "CLIENT_RANDOM", "CLIENT_EARLY_TRAFFIC_SECRET", "CLIENT_HANDSHAKE_TRAFFIC_SECRET",
                                       "SERVER_HANDSHAKE_TRAFFIC_SECRET", "CLIENT_TRAFFIC_SECRET_0", "SERVER_TRAFFIC_SECRET_0",
                                       "EARLY_EXPORTER_SECRET", "EXPORTER_SECRET"]),
               "DSB before the packets for QUIC (keys are needed while packets are read), anywhere for TLS"]

LABELS = ["RSA", "CLIENT_RANDOM", "CLIENT_EARLY_TRAFFIC_SECRET", "CLIENT_HANDSHAKE_TRAFFIC_SECRET", "SERVER_HANDSHAKE_TRAFFIC_SECRET",
          "CLIENT_TRAFFIC_SECRET_0", "SERVER_TRAFFIC_SECRET_0", "EARLY_EXPORTER_SECRET", "EXPORTER_SECRET"]

DELIVERIES = ["file", "file-all-upper", "file-crlf-comments-upper", "dsb-first", "two-dsbs", "file+dsb", "dsb-only-no-s", "dsb-after-packets"]


def configs(tier, seed):
    out = [{"harness": "regex", "name": "regex-inclusion", "mode": "real"}, {"harness": "fields", "name": "field-extraction", "mode": "real"}]
    out += [{"harness": "dsbblock", "name": "dsb-block-" + ("le" if le else "be"), "le": le, "n": 9 if tier == "quick" else 24} for le in (True, False)]
    tls = [("TLS12", 0x009c, "TLS_RSA_WITH_AES_128_GCM_SHA256"), ("TLS13", 0x1301, "TLS_AES_128_GCM_SHA256"), ("TLS10", 0x002f, "TLS_RSA_WITH_AES_128_CBC_SHA")]
    for v, code, name in tls:
        for first in (range(4) if v == "TLS13" else [None]):
            out.append({"harness": "consumers", "name": "consumers-%s%s" % (v, "" if first is None else "-first%d" % first), "proto": "tls", "version": v, "suite": code,
                        "suite_name": name, "records": 1, "max_len": 1, "min_len": 1, "first": first})
    for s in ((0x1301, 0x1303) if tier == "quick" else (0x1301, 0x1302, 0x1303, 0x1304)):
        zr = tier == "thorough"
        for first in range(5 if zr else 4):
            out.append({"harness": "consumers", "name": "consumers-quic-%04x-first%d" % (s, first), "proto": "quic", "suite": s, "offered": [s], "n_app": 1, "data_len": 1,
                        "zero_rtt": zr, "first": first})
    for d in DELIVERIES:
        for proto in ("tls", "quic"):
            if proto == "quic" and d == "dsb-after-packets":
                continue
            out.append({"harness": "delivery", "name": "delivery-%s-%s" % (proto, d), "proto": proto, "delivery": d})
    return out


def bounds(tier):
    return {"regex/fields": "the whole line language (unbounded strings)", "consumers": "all permutations of the connection's key-log entries, one duplicate, "
            "unrelated entries (other client random; EXPORTER_SECRET for the same client random) at solver-chosen positions",
            "delivery": DELIVERIES, "dsbblock": "secrets length 0..%d, options 0/4/8 bytes, every content byte symbolic, both byte orders" % (9 if tier == "quick" else 24), "outside": "key logs with more than one secret for the same (label, client random)"}


# ---- regex --------------------------------------------------------------------------------------------------------------------

def lift_regex():
    import ast
    import os
    src = open(os.path.join(os.environ.get("TLV_REPO", "/repo"), "tlexport", "keylog_reader.py")).read()
    tree = ast.parse(src)
    for node in ast.walk(tree):
        if isinstance(node, ast.FunctionDef) and node.name == "get_key_from_line":
            pat, how = None, None
            for sub in ast.walk(node):
                if isinstance(sub, ast.Call) and isinstance(sub.func, ast.Attribute) and sub.func.attr == "compile" and sub.args and isinstance(sub.args[0], ast.Constant):
                    pat = sub.args[0].value
                    flags = [ast.unparse(a) for a in sub.args[1:]] + [ast.unparse(k.value) for k in sub.keywords]
                if isinstance(sub, ast.Call) and isinstance(sub.func, ast.Attribute) and sub.func.attr in ("match", "fullmatch", "search"):
                    how = sub.func.attr
            return pat, how, flags if pat else None
    return None, None, None


def to_z3_re(pattern, flags, z3):
    import re
    try:
        import re._parser as sre_parse
        import re._constants as C
    except ImportError:        # pragma: no cover
        import sre_parse
        import sre_constants as C
    ignorecase = any("IGNORECASE" in f or f.endswith("re.I") or f == "re.I" for f in (flags or []))

    def ch(c):
        s = chr(c)
        if ignorecase and s.lower() != s.upper():
            return z3.Union(z3.Re(s.lower()), z3.Re(s.upper()))
        return z3.Re(s)

    def rng(a, b):
        r = z3.Range(chr(a), chr(b))
        if ignorecase:
            ex = []
            for lo, hi in ((max(a, 65), min(b, 90)), (max(a, 97), min(b, 122))):
                if lo <= hi:
                    ex.append(z3.Range(chr(lo ^ 32), chr(hi ^ 32)))
            for e in ex:
                r = z3.Union(r, e)
        return r

    def conv(items):
        parts = []
        for op, av in items:
            if op == C.LITERAL:
                parts.append(ch(av))
            elif op == C.IN:
                alts = []
                for o2, a2 in av:
                    if o2 == C.LITERAL:
                        alts.append(ch(a2))
                    elif o2 == C.RANGE:
                        alts.append(rng(a2[0], a2[1]))
                    else:
                        raise ValueError("class item %s" % o2)
                parts.append(alts[0] if len(alts) == 1 else z3.Union(*alts))
            elif op == C.BRANCH:
                alts = [conv(x) for x in av[1]]
                parts.append(alts[0] if len(alts) == 1 else z3.Union(*alts))
            elif op == C.SUBPATTERN:
                parts.append(conv(av[3]))
            elif op in (C.MAX_REPEAT, C.MIN_REPEAT):
                lo, hi, sub = av
                r = conv(sub)
                if hi == C.MAXREPEAT:
                    parts.append(z3.Concat(z3.Loop(r, lo, lo), z3.Star(r)) if lo > 0 else z3.Star(r))
                else:
                    parts.append(z3.Loop(r, lo, hi))
            else:
                raise ValueError("regex construct %s" % op)
        if not parts:
            return z3.Re("")
        return parts[0] if len(parts) == 1 else z3.Concat(*parts)
    return conv(list(sre_parse.parse(pattern)))


def spec_language(z3):
    hexd = z3.Union(z3.Range("0", "9"), z3.Range("a", "f"), z3.Range("A", "F"))
    label = z3.Union(*[z3.Re(l) for l in LABELS])
    byte = z3.Concat(hexd, hexd)
    return z3.Concat(label, z3.Re(" "), z3.Loop(hexd, 64, 64), z3.Re(" "), z3.Plus(byte))


def _run_regex(cfg):
    import time
    import z3
    t0 = time.time()
    pat, how, flags = lift_regex()
    viol, inconc = [], []
    sites = {"regex-recognised": 0, "nss-lines-accepted": 0}
    if pat is None or how is None:
        inconc.append("regular expression or match call not found in get_key_from_line")
    else:
        try:
            R = to_z3_re(pat, flags, z3)
            sites["regex-recognised"] = 1
            anyc = z3.Star(z3.AllChar(z3.ReSort(z3.StringSort())))
            acc = {"match": z3.Concat(R, anyc), "fullmatch": R, "search": z3.Concat(anyc, R, anyc)}[how]
            s = z3.String("line")
            sol = z3.Solver()
            sol.set("timeout", 120000)
            sol.add(z3.InRe(s, spec_language(z3)), z3.Not(z3.InRe(s, acc)))
            r = sol.check()
            sites["nss-lines-accepted"] = 1
            if r == z3.sat:
                line = sol.model()[s].as_string()
                viol.append({"label": "nss-lines-accepted", "inputs": {"line": line}, "detail": "valid NSS key log line rejected by %r (%s)" % (pat, how)})
            elif r != z3.unsat:
                inconc.append("solver: %s" % r)
        except ValueError as e:
            inconc.append("regex not translatable: %s" % e)
    return {"stats": {"paths": 1, "decisions": 1, "queries": 1, "solver_s": time.time() - t0, "checks": 1}, "violations": viol, "sites": sites,
            "inconclusive": inconc, "samples": [{"path": 0, "inputs": {"pattern": pat, "call": how}, "result": "inclusion query", "validate": False}]}


def _run_fields(cfg):
    """Key(line): label / client_random / value are the three space-separated fields, for every line of the language."""
    import ast
    import os
    import time
    import z3
    t0 = time.time()
    src = open(os.path.join(os.environ.get("TLV_REPO", "/repo"), "tlexport", "keylog_reader.py")).read()
    tree = ast.parse(src)
    sep, idx = None, {}
    for node in ast.walk(tree):
        if isinstance(node, ast.ClassDef) and node.name == "Key":
            for sub in ast.walk(node):
                if isinstance(sub, ast.Call) and isinstance(sub.func, ast.Attribute) and sub.func.attr == "split" and sub.args and isinstance(sub.args[0], ast.Constant):
                    sep = sub.args[0].value
                if isinstance(sub, ast.Assign) and isinstance(sub.targets[0], ast.Attribute) and isinstance(sub.value, ast.Subscript) \
                        and isinstance(sub.value.slice, ast.Constant):
                    idx[sub.targets[0].attr] = sub.value.slice.value
    viol, inconc = [], []
    if sep is None or set(idx) != {"label", "client_random", "value"}:
        inconc.append("Key.__init__ is not of the form split(sep)[i] assignments: sep=%r idx=%r" % (sep, idx))
    else:
        # str.split(sep) of  f0 sep f1 sep f2 [sep rest]  is [f0, f1, f2, ...] whenever no field contains sep.  What the code
        # contributes is the separator and the indices; what the language must guarantee is that its fields are free of sep.
        if sep != " " or idx != {"label": 0, "client_random": 1, "value": 2}:
            viol.append({"label": "fields-extracted", "inputs": {"line": "CLIENT_RANDOM " + "0a" * 32 + " " + "0b" * 48},
                         "detail": "Key.__init__ takes separator %r and indices %r" % (sep, idx)})
        hexd = z3.Union(z3.Range("0", "9"), z3.Range("a", "f"), z3.Range("A", "F"))
        anyc = z3.Star(z3.AllChar(z3.ReSort(z3.StringSort())))
        has_sep = z3.Concat(anyc, z3.Re(sep), anyc)
        for nm, lang in (("label", z3.Union(*[z3.Re(l) for l in LABELS])), ("client_random", z3.Loop(hexd, 64, 64)), ("value", z3.Plus(z3.Concat(hexd, hexd)))):
            sol = z3.Solver()
            sol.set("timeout", 60000)
            x = z3.String("x")
            sol.add(z3.InRe(x, z3.Intersect(lang, has_sep)))
            r = sol.check()
            if r == z3.sat:
                viol.append({"label": "fields-extracted", "inputs": {"line": sol.model()[x].as_string()}, "detail": "field %s may contain the separator" % nm})
            elif r != z3.unsat:
                inconc.append("solver: %s" % r)
    return {"stats": {"paths": 1, "decisions": 1, "queries": 1, "solver_s": time.time() - t0, "checks": 1}, "violations": viol,
            "sites": {"fields-extracted": 1}, "inconclusive": inconc,
            "samples": [{"path": 0, "inputs": {"separator": sep, "indices": idx}, "result": "z3 strings", "validate": False}]}


# ---- consumers ----------------------------------------------------------------------------------------------------------------

def _permute(src, entries, extra, first=None):
    """Solver-chosen permutation of entries + one duplicate + unrelated entries inserted at a solver-chosen position."""
    pool = list(entries)
    out = []
    i = 0
    while pool:
        opts = list(range(len(pool)))
        if i == 0 and first is not None:
            opts = [first % len(pool)]
        k = src.choice("perm%d" % i, opts)
        out.append(pool.pop(k))
        i += 1
    dup = src.choice("dup_which", list(range(len(entries))))
    out.insert(src.choice("dup_pos", [0, len(out)]), entries[dup])
    pos = src.choice("extra_pos", [0, len(out) // 2, len(out)])
    for e in reversed(extra):
        out.insert(pos, e)
    return out


def _run_consumers(cfg):
    from tlv.sx.core import ctx, sym_and, sym_not
    from tlv.sx.symbytes import as_symbytes, sym_bytes
    from tlv.harness import pipeline as P, c02
    from tlv.harness.common import explore_cfg
    from tlv.oracle import scenario as SC, quic_scenario as QS
    from cryptography._model import same_terms
    mods = P.setup_symbolic()

    def scenario():
        c = ctx()
        src = SC.SymSrc()
        if cfg["proto"] == "tls":
            items, keylog, meta = SC.build(cfg, src)
            ep = P.Endpoint(ipv=4)

            def run(kl):
                ep_ = P.Endpoint(ipv=4)
                out, _ = P.run_tls(mods, P.tcp_frames(ep_, items), P.keylog_objects(mods, kl))
                st = P.tcp_streams(out, ep_)
                return [as_symbytes(P.concat([x[0] for x in st[d]])).e for d in (False, True)]
        else:
            dgrams, keylog, meta = QS.build(cfg, src)
            c02.assume_cids_prefix_free(c, meta)
            c02.assume_no_accidental_cid(c, meta, dgrams)

            def run(kl):
                ep_ = P.Endpoint(ipv=4)
                out, _ = P.run_quic(mods, P.udp_frames(ep_, dgrams), P.keylog_objects(mods, kl))
                return [[(d, tuple(as_symbytes(l).e)) for d, l, t in P.udp_payloads(out, ep_) if d is not None and len(l) > 0]]
        other_cr = sym_bytes("other_client_random", 32)
        c.assume(sym_not(as_symbytes(other_cr) == meta["cr"]))
        extra = [("CLIENT_RANDOM", other_cr, sym_bytes("other_secret", 48)), ("EXPORTER_SECRET", meta["cr"], sym_bytes("exporter", 32))]
        try:
            base = run(keylog)
            var = run(_permute(src, keylog, extra, cfg.get("first")))
        except Exception as e:
            import traceback
            c.fail("no-exception", "%s: %s %s" % (type(e).__name__, e, traceback.format_exc().splitlines()[-3:-1]))
            return {"outcome": "exception"}
        c.check(True, "no-exception")
        same = len(base) == len(var) and all((same_terms(a, b) if not (a and isinstance(a[0], tuple)) else
                                              (len(a) == len(b) and all(x[0] == y[0] and same_terms(list(x[1]), list(y[1])) for x, y in zip(a, b))))
                                             for a, b in zip(base, var))
        nonempty = any(len(a) > 0 for a in base)
        c.check(same and nonempty, "consumers-order-independent", "export with the permuted/decorated key log differs from the canonical one (or nothing was exported)")
        return {"outcome": "same", "validate": False}
    return explore_cfg(scenario, cfg, timeout_ms=60000, sample_paths=1, max_paths=20000)


# ---- delivery -----------------------------------------------------------------------------------------------------------------

DEFAULT_KEYLOG = "tlexport/pcaps_und_keylogs/quic_pcaps/all_ciphersuites.log"


def _delivery_case(cfg, keylog_text, n_packets):
    """-> (argv, files, dsb blocks [(position, text)], exists(path) spec)"""
    d = cfg["delivery"]
    lines = keylog_text.strip("\n").split("\n")
    half = max(1, len(lines) // 2)
    if d == "file":
        return ["-s", "k.log"], {"k.log": keylog_text}, []
    if d == "file-all-upper":
        up = [l.split(" ")[0] + " " + l.split(" ")[1].upper() + " " + l.split(" ")[2].upper() for l in lines]
        return ["-s", "k.log"], {"k.log": "\n".join(up) + "\n"}, []
    if d == "file-crlf-comments-upper":
        deco = ["# comment line", ""] + [l.split(" ")[0] + " " + l.split(" ")[1].upper() + " " + l.split(" ")[2].upper() for l in lines[:half]] + \
               ["UNRELATED text that is not a key"] + lines[half:] + [lines[0]]
        return ["-s", "k.log"], {"k.log": "\r\n".join(deco) + "\r\n"}, []
    if d == "dsb-first":
        return ["-s", "empty.log"], {"empty.log": ""}, [(0, keylog_text)]
    if d == "two-dsbs":
        return ["-s", "empty.log"], {"empty.log": ""}, [(0, "\n".join(lines[:half]) + "\n"), (0, "\n".join(lines[half:]) + "\n")]
    if d == "file+dsb":
        return ["-s", "k.log"], {"k.log": "\n".join(lines[:half]) + "\n"}, [(0, "\n".join(lines[half:]) + "\n")]
    if d == "dsb-only-no-s":
        return [], {}, [(0, keylog_text)]
    if d == "dsb-after-packets":
        return ["-s", "empty.log"], {"empty.log": ""}, [(n_packets, keylog_text)]
    raise ValueError(d)


def _run_delivery(cfg):
    from tlv.sx.core import ctx, sym_bool
    from tlv.sx.symbytes import as_symbytes
    from tlv.harness import pipeline as P, rundriver as RD
    from tlv.harness.common import explore_cfg
    from tlv.oracle import scenario as SC, quic_scenario as QS
    from tlv import e2e
    from cryptography._model import same_terms
    mods = P.setup_symbolic()

    class Src(SC.SymSrc):
        """secrets and randoms concrete (they travel as text), application data symbolic"""

        def __init__(self):
            super().__init__()
            self.conc = SC.ConcreteSrc({})

        def bytes(self, name, n):
            if name.startswith("app") or name.startswith("data"):
                return super().bytes(name, n)
            return self.conc.bytes(name, n)

    def scenario():
        c = ctx()
        src = Src()
        ep = P.Endpoint(ipv=4)
        if cfg["proto"] == "tls":
            scfg = {"version": "TLS13", "suite": 0x1301, "suite_name": "TLS_AES_128_GCM_SHA256", "records": 2, "max_len": 1, "min_len": 1, "grouping": "one"}
            items, keylog, meta = SC.build(scfg, src)
            frames = [(float(ts), fr) for fr, ts, *_ in P.tcp_frames(ep, items)]
        else:
            qcfg = {"suite": 0x1301, "offered": [0x1301], "odcid_len": 8, "c_cid_len": 4, "s_cid_len": 8, "n_app": 2, "data_len": 1}
            dgrams, keylog, meta = QS.build(qcfg, src)
            frames = [(float(ts), fr) for fr, ts, _ in P.udp_frames(ep, dgrams)]
        text = e2e.keylog_text(keylog)

        def run(argv, files, dsbs, exists=None):
            blocks = list(frames)
            for pos, t in sorted(dsbs, key=lambda x: -x[0]):
                blocks.insert(pos, (-1, t.encode("ascii")))
            env = RD.RunEnv(mods, blocks, files=files, exists=exists)
            out = RD.run_main(mods, ["-i", "in.pcapng", "-o", "o.pcapng"] + argv, env)
            return [(fr.names(), tuple(as_symbytes(fr.layer("Raw").load).e) if fr.layer("Raw") is not None else (), ts) for fr, ts in out]
        try:
            base = run(["-s", "k.log"], {"k.log": text}, [])
            argv, files, dsbs = _delivery_case(cfg, text, len(frames))
            exists = None
            if cfg["delivery"] == "dsb-only-no-s":
                here = sym_bool("default_keylog_exists_in_cwd")
                files = dict(files)
                files[DEFAULT_KEYLOG] = "CLIENT_RANDOM " + "ab" * 32 + " " + "cd" * 48 + "\n"
                exists = lambda p: (here if p == DEFAULT_KEYLOG else p in files)
            var = run(argv, files, dsbs, exists)
        except (Exception, RD.ExitCalled) as e:
            import traceback
            c.fail("no-exception", "%s: %s %s" % (type(e).__name__, e, traceback.format_exc().splitlines()[-3:-1]))
            return {"outcome": "exception"}
        c.check(True, "no-exception")
        same = len(base) == len(var) and all(a[0] == b[0] and a[2] == b[2] and same_terms(list(a[1]), list(b[1])) for a, b in zip(base, var))
        c.check(same and sum(1 for a in base if len(a[1]) > 0) >= 2, "delivery-independent", "%d packets from the key-log file, %d with delivery '%s'" % (len(base), len(var), cfg["delivery"]))
        return {"outcome": "%d packets" % len(base), "validate": False}
    return explore_cfg(scenario, cfg, timeout_ms=60000, sample_paths=1)


def _run_dsbblock(cfg):
    """tlexport.dpkt_dsb.DecryptionSecretBlock.unpack on a block with symbolic content: the secrets text handed on (pkt_data) is exactly
    the secrets_length bytes after the fixed header - no padding, nothing missing - and the options start after the padding.
    dpkt's struct-level header parsing and option parsing are modelled (header fields symbolic / recorded)."""
    from tlv.sx import shims
    from tlv.sx.core import ctx, sym_int, sym_choice
    from tlv.sx.symbytes import sym_bytes, as_symbytes
    from tlv.harness.common import explore_cfg
    import tlexport.dpkt_dsb as dd
    import dpkt.pcapng as real
    shims.install(dd)
    cls = dd.DecryptionSecretBlockLE if cfg["le"] else dd.DecryptionSecretBlock
    N = cfg["n"]

    def scenario():
        c = ctx()
        slen = sym_choice("secrets_length", list(range(0, N + 1)))
        padded = (slen + 3) // 4 * 4
        optlen = sym_choice("options_length", [0, 4, 8])
        total = 20 + padded + optlen
        buf = sym_bytes("block", total)
        stype = sym_int("secrets_type", 0, (1 << 32) - 1)
        seen = {}

        class NeedData(Exception):
            pass

        class PacketModel:
            @staticmethod
            def unpack(self, b):           # dpkt.Packet.unpack: fixed header fields through struct
                self.type, self.len, self.secrets_type, self.secrets_length, self._len = 0x0A, total, stype, slen, total
                self.data = b[20:]

        class D:
            Packet = PacketModel
        D.NeedData = NeedData
        saved = dd.dpkt
        dd.dpkt = D
        try:
            blk = object.__new__(cls)
            blk._do_unpack_options = lambda b, off: seen.setdefault("opts", (b, off))
            try:
                cls.unpack(blk, buf)
            except Exception as e:
                c.fail("no-exception", "%s: %s" % (type(e).__name__, e))
                return {"outcome": "exception"}
        finally:
            dd.dpkt = saved
        c.check(True, "no-exception")
        got = blk.pkt_data
        ok = len(got) == slen and (slen == 0 or as_symbytes(got) == buf[16:16 + slen])
        c.check(ok, "dsb-secrets-exact", "secrets_length %d: %d bytes handed on" % (slen, len(got)))
        c.check("opts" in seen and seen["opts"][1] == 16 + padded, "dsb-secrets-exact", "options parsed from offset %r, padded secrets end at %d" % (seen.get("opts", (0, None))[1], 16 + padded))
        return {"outcome": "len %d" % slen, "validate": False}
    return explore_cfg(scenario, cfg, timeout_ms=60000, sample_paths=1)


def _replay_dsbblock(cfg, inp):
    import struct
    import tlexport.dpkt_dsb as dd
    e = "<" if cfg["le"] else ">"
    slen = inp.get("secrets_length", 0)
    optlen = [0, 4, 8][inp.get("options_length", 0)]
    raw = bytes.fromhex(inp["block"])
    padded = (slen + 3) // 4 * 4
    total = 20 + padded + optlen
    body = raw[16:16 + padded]
    opts = {0: b"", 4: struct.pack(e + "HH", 0, 0), 8: struct.pack(e + "HH", 1, 0) + struct.pack(e + "HH", 0, 0)}[optlen]
    buf = struct.pack(e + "IIII", 0x0A, total, inp.get("secrets_type", 0), slen) + body + opts + struct.pack(e + "I", total)
    try:
        blk = (dd.DecryptionSecretBlockLE if cfg["le"] else dd.DecryptionSecretBlock)(buf)
    except Exception as ex:
        return {"reproduced": True, "why": "exception %s: %s" % (type(ex).__name__, ex)}
    return {"reproduced": bytes(blk.pkt_data) != body[:slen], "handed_on": bytes(blk.pkt_data).hex(), "secrets": body[:slen].hex()}


def run_config(cfg):
    return {"regex": _run_regex, "fields": _run_fields, "consumers": _run_consumers, "delivery": _run_delivery, "dsbblock": _run_dsbblock}[cfg["harness"]](cfg)


# ---- replays ------------------------------------------------------------------------------------------------------------------

def replay(cfg, viol):
    h = cfg["harness"]
    inp = viol["inputs"]
    if h in ("regex", "fields"):
        import tlexport.keylog_reader as kr
        line = inp["line"]
        k = kr.get_key_from_line(line)
        parts = line.split(" ")
        ok = k is not None and (k.label, k.client_random, k.value) == (parts[0], parts[1], parts[2])
        return {"reproduced": not ok, "line": line, "accepted": k is not None}
    if h == "delivery":
        return _replay_delivery(cfg, inp)
    if h == "consumers":
        return _replay_consumers(cfg, inp)
    if h == "dsbblock":
        return _replay_dsbblock(cfg, inp)
    return {"reproduced": None}


def _real_export(pk, keylog_txt, args=(), dsbs=(), dsb_at=0, cwd=None, use_s=True):
    from tlv import e2e
    r = e2e.run_tlexport(pk, keylog_txt if use_s else None, args=args, capture_kw={"dsbs": [d.encode() for d in dsbs], "dsb_at": dsb_at}, cwd=cwd)
    return r, [(d.get("l4"), d.get("sport"), d.get("dport"), d.get("payload"), d["ts"]) for d in r["frames"]]


def _replay_delivery(cfg, inp):
    from tlv import e2e
    from tlv.harness import pipeline as P
    from tlv.oracle import scenario as SC, quic_scenario as QS
    src = SC.ConcreteSrc(inp)
    ep = P.Endpoint(ipv=4)
    if cfg["proto"] == "tls":
        scfg = {"version": "TLS13", "suite": 0x1301, "suite_name": "TLS_AES_128_GCM_SHA256", "records": 2, "max_len": 1, "min_len": 1, "grouping": "one"}
        items, keylog, meta = SC.build(scfg, src)
        pk = e2e.concrete_frames(ep, items)
    else:
        qcfg = {"suite": 0x1301, "offered": [0x1301], "odcid_len": 8, "c_cid_len": 4, "s_cid_len": 8, "n_app": 2, "data_len": 1}
        dgrams, keylog, meta = QS.build(qcfg, src)
        pk = e2e.concrete_udp_frames(ep, dgrams)
    text = e2e.keylog_text(keylog)
    r0, base = _real_export(pk, text)
    argv, files, dsbs = _delivery_case(cfg, text, len(pk))
    use_s = "-s" in argv
    ktxt = files.get(argv[1]) if use_s else None
    r1, var = _real_export(pk, ktxt, dsbs=[t for _, t in dsbs], dsb_at=dsbs[0][0] if dsbs else 0, use_s=use_s)
    problems = r0["problems"] + r1["problems"]
    if base != var:
        problems.append("%d packets from the key-log file, %d with delivery '%s'" % (len(base), len(var), cfg["delivery"]))
    if sum(1 for b in base if b[3]) < 2:
        problems.append("nothing exported even from the key-log file")
    return {"reproduced": bool(problems), "problems": problems[:3]}


def _replay_consumers(cfg, inp):
    from tlv import e2e
    from tlv.harness import pipeline as P
    from tlv.oracle import scenario as SC, quic_scenario as QS
    src = SC.ConcreteSrc(inp)
    ep = P.Endpoint(ipv=4)
    if cfg["proto"] == "tls":
        items, keylog, meta = SC.build(cfg, src)
        pk = e2e.concrete_frames(ep, items)
    else:
        dgrams, keylog, meta = QS.build(cfg, src)
        pk = e2e.concrete_udp_frames(ep, dgrams)
    extra = [("CLIENT_RANDOM", src.bytes("other_client_random", 32), src.bytes("other_secret", 48)), ("EXPORTER_SECRET", meta["cr"], src.bytes("exporter", 32))]
    perm = _permute(src, keylog, extra, cfg.get("first"))
    r0, base = _real_export(pk, e2e.keylog_text(keylog))
    r1, var = _real_export(pk, e2e.keylog_text(perm))
    problems = r0["problems"] + r1["problems"]
    if base != var:
        problems.append("export differs: %d vs %d packets" % (len(base), len(var)))
    return {"reproduced": bool(problems), "problems": problems[:3]}


def validate(cfg, sample):
    return {"agree": True}
