"""C03 - an undecryptable or damaged flow never aborts the run or disturbs other flows.

udp   : n arbitrary bytes as a UDP datagram through main.run's UDP branch / handle_quic_packet, alone or after a healthy QUIC
        connection from the same or another address.
tcp   : arbitrary bytes in one or two TCP segments to a watched port ('plain HTTP on 443').
fault : one fault on a healthy TLS or QUIC victim next to a healthy TLS bystander: a deleted packet, a shortened payload, a byte
        overwritten with a symbolic mask at a solver-chosen position, any subset of the victim's key-log lines removed, all its
        secrets replaced by unrelated ones, an unknown cipher-suite id in the ServerHello.
Assertions: main.run returns (no exception, no exit()); the bystander's export equals its solo export; for faults that only remove
information the victim's exported stream per direction is a prefix of what it sent."""

VALIDATE = False
SITES = ["run-completes", "bystander-unaffected", "victim-prefix-of-plaintext"]
MODELS = ["as C01/C02; main.run with stub reader/writer/file system (tlv/harness/rundriver.py)"]
ASSUMPTIONS = ["one fault at a time; damaged Ethernet/IP/TCP/UDP headers are outside the property",
               "ideal cryptography: a record decrypted under a wrong key/nonce or with a damaged ciphertext yields InvalidTag (AEAD) or unconstrained bytes (CBC/RC4)"]

TLS_VICTIMS = {
    "tls12-gcm": {"version": "TLS12", "suite": 0x009c, "suite_name": "TLS_RSA_WITH_AES_128_GCM_SHA256", "aead": True},
    "tls13": {"version": "TLS13", "suite": 0x1301, "suite_name": "TLS_AES_128_GCM_SHA256", "aead": True, "grouping": "one"},
    "tls10-cbc": {"version": "TLS10", "suite": 0x002f, "suite_name": "TLS_RSA_WITH_AES_128_CBC_SHA", "aead": False},
    "tls11-rc4": {"version": "TLS11", "suite": 0x0005, "suite_name": "TLS_RSA_WITH_RC4_128_SHA", "aead": False},
}
FAULTS = ["delete", "shorten", "overwrite", "keys-subset", "keys-wrong", "unknown-suite"]
REMOVING = ("delete", "shorten", "keys-subset", "unknown-suite")


def configs(tier, seed):
    out = []
    nmax = 7 if tier == "quick" else 8
    for n in range(1, nmax + 1):
        for ctx_ in ("alone", "after-quic-same-address", "after-quic-other-address", "inside-quic0-other-address"):
            if ctx_ != "alone" and (n > (5 if tier == "quick" else 6) or (tier == "quick" and n not in (1, 3, 5))):
                continue
            out.append({"harness": "udp", "name": "udp-%d-%s" % (n, ctx_), "n": n, "context": ctx_})
    # a datagram long enough to get through header-protection removal (sample = bytes 5..20) of a short-header packet
    for ctx_ in ("after-quic-same-address", "after-quic-other-address", "inside-quic0-other-address", "inside-quic0-same-address"):
        out.append({"harness": "udp", "name": "udp-24-%s" % ctx_, "n": 24, "context": ctx_, "short_header": True})
    # a Version Negotiation datagram (long header, version 0, connection ids of 0/1/4 bytes, one or two offered versions): legal QUIC
    # traffic that is not a version 1 packet
    for ctx_ in ("alone", "after-quic-same-address", "inside-quic0-same-address"):
        out.append({"harness": "udp", "name": "udp-vn-%s" % ctx_, "n": None, "context": ctx_, "version_negotiation": True})
    # a Retry-shaped datagram (long header type 3, version 1) between other hosts before / after a healthy QUIC connection
    for ctx_ in ("before-quic-other-address", "after-quic-other-address"):
        out.append({"harness": "udp", "name": "udp-retry-%s" % ctx_, "n": None, "context": ctx_, "retry_shaped": True})
    for lens in ([(3,), (6,), (5, 3)] if tier == "quick" else [(1,), (4,), (5,), (6,), (5, 3), (3, 5)]):
        out.append({"harness": "tcp", "name": "tcp-" + "+".join(str(x) for x in lens), "lens": list(lens)})
    for v in TLS_VICTIMS:
        for f in FAULTS:
            if f == "unknown-suite" and v == "tls13" and tier == "quick":
                continue
            if v == "tls10-cbc" and f in ("keys-wrong", "overwrite"):
                continue       # garbage CBC padding lengths fork once per possible length and record: not explorable within reach (RC4 covers non-AEAD garbage)
            if f in ("delete", "shorten", "overwrite"):
                for part in range(4):
                    out.append({"harness": "fault", "name": "fault-%s-%s-part%d" % (v, f, part), "victim": v, "fault": f, "part": part, "parts": 4, "tier": tier})
            else:
                out.append({"harness": "fault", "name": "fault-%s-%s" % (v, f), "victim": v, "fault": f})
    # a segment lost inside a record that travels in three segments (not at a record boundary: the known finding does not apply)
    for v in ("tls11-rc4", "tls10-cbc", "tls12-gcm"):
        for part in range(4):
            out.append({"harness": "fault", "name": "fault-%s-delete-inside-record-part%d" % (v, part), "victim": v, "fault": "delete", "part": part, "parts": 4, "tier": tier,
                        "split3": True})
    for f in FAULTS[:-1]:
        if f in ("keys-wrong", "overwrite"):
            continue       # wrong header-protection keys / damaged first bytes fork over packet-number length and key phase per packet: hours per configuration
        if f in ("delete", "shorten", "overwrite"):
            for part in range(4):
                out.append({"harness": "fault", "name": "fault-quic-%s-part%d" % (f, part), "victim": "quic", "fault": f, "part": part, "parts": 4, "tier": tier})
        else:
            out.append({"harness": "fault", "name": "fault-quic-%s" % f, "victim": "quic", "fault": f})
    return out


def bounds(tier):
    return {"udp": "1..%d arbitrary bytes (every value), alone / after a complete QUIC connection from the same or another address / between the last datagrams of a QUIC connection whose client uses a zero-length connection id, from other endpoints (the connection's export must not change)" % (7 if tier == "quick" else 8),
            "tcp": "arbitrary bytes to port 443 in one or two segments of <= 6 bytes",
            "fault": "victims %s and QUIC (0x1301); faults %s; position of the deleted/shortened/overwritten packet and byte solver-chosen "
                     "(overwrite: payload byte 5 or the last byte (thorough: also 9) of any packet xor 0x01/0xff (thorough: also 0x80))" % (sorted(TLS_VICTIMS), FAULTS),
            "outside": "arbitrary UDP payloads longer than the bound; faults on the bystander; several faults at once; wrong keys and overwritten bytes for the QUIC victim (fork over packet-number length and key phase per packet)"}


def _positions(cfg, n):
    """Byte offsets inside the chosen TCP/UDP payload.  Offset 0-2 (record type / version of the first record) are left out: turning an
    encrypted record into a 'handshake' record makes the ciphertext be parsed as a ServerHello, which forks over every suite id,
    extension type and length the free ciphertext bytes can spell."""
    if cfg.get("tier") == "thorough":
        return sorted({5, 9, n - 1} & set(range(3, n))) or [n - 1]
    return sorted({5, n - 1} & set(range(3, n))) or [n - 1]


def _fault_units(cfg, units):
    ks = list(range(len(units)))
    if cfg.get("split3"):
        # application records only: a hole inside a handshake record turns ciphertext into record headers, which the garbage-in
        # behaviour of the record parser decides, not the reassembly
        ks = [k for k in ks if units[k].get("piece", 0) > 0 and len(units[k]["data"]) > 0 and units[k].get("kind") == "app"]
        mine = [k for i, k in enumerate(ks) if i % cfg.get("parts", 1) == cfg.get("part", 0)]
        return mine or ks[:1]
    if cfg["victim"] == "tls10-cbc":
        ks = ks[-3:]          # CBC victim: faults on the application records only (garbage padding lengths explode otherwise)
    mine = [k for i, k in enumerate(ks) if i % cfg.get("parts", 1) == cfg.get("part", 0)]
    return mine or ks[:1]


def _masks(cfg):
    return [0x01, 0x80, 0xFF] if cfg.get("tier") == "thorough" else [0x01, 0xFF]


def _bystander(src_prefix="y."):
    from tlv.harness import pipeline as P
    from tlv.oracle import scenario as SC
    cfg = {"version": "TLS12", "suite": 0xc02f, "suite_name": "TLS_ECDHE_RSA_WITH_AES_128_GCM_SHA256", "records": 2, "max_len": 1, "min_len": 1, "grouping": "one",
           "sym_dirs": False, "dirs": [0, 1]}
    items, keylog, meta = SC.build(cfg, SC.SymSrc(src_prefix))
    ep = P.Endpoint(ipv=4, c_port=51000, c_ip=b"\x0a\x00\x00\x09")
    return items, keylog, meta, ep


def _summ(out, ep, l4="TCP"):
    from tlv.sx.symbytes import as_symbytes
    r = []
    for fr, ts in out:
        l = fr.layer(l4) if hasattr(fr, "layer") else None
        if l is None:
            continue
        if {l.sport, l.dport} != {ep.c_port, ep.s_port}:
            continue
        ip = fr.layer("IP") or fr.layer("IPv6")
        raw = fr.layer("Raw")
        r.append((l.sport == ep.s_port, tuple(as_symbytes(raw.load).e) if raw is not None else (), str(getattr(l, "flags", ""))))
    return r


def _run(mods, blocks, keylog, argv_extra=()):
    from tlv.harness import pipeline as P, rundriver as RD
    mods["tlexport.keylog_reader"].get_keys_from_string = lambda text: P.keylog_objects(mods, keylog)
    env = RD.RunEnv(mods, blocks, files={"k.log": ""})
    return RD.run_main(mods, ["-i", "in.pcapng", "-o", "o.pcapng", "-s", "k.log"] + list(argv_extra), env)


from tlv.sx.core import BudgetExceeded as _Budget      # a path of main.run that exhausts its decision or time budget: candidate for non-termination


def _fail_detail(e):
    import traceback
    if isinstance(e, _Budget):
        return "main.run did not finish within the budget of one path (%s): candidate for non-termination, decided by the replay" % e
    return "%s: %s %s" % (type(e).__name__, e, traceback.format_exc().splitlines()[-3:-1])


def _run_udp(cfg):
    from tlv.sx.core import ctx, sym_choice
    from tlv.sx.symbytes import sym_bytes
    from tlv.harness import pipeline as P, rundriver as RD, c02
    from tlv.harness.common import explore_cfg
    from tlv.oracle import scenario as SC, quic_scenario as QS, frames as F
    mods = P.setup_symbolic()

    def scenario():
        c = ctx()
        blocks, keylog = [], []
        ep = P.Endpoint(ipv=4)
        inside = cfg["context"].startswith("inside")
        if cfg["context"] != "alone":
            qcfg = {"suite": 0x1301, "offered": [0x1301], "odcid_len": 8, "c_cid_len": 0 if "quic0" in cfg["context"] else 4, "s_cid_len": 8,
                    "n_app": 2, "data_len": 1, "sym_dirs": False, "dirs": [0, 1]}
            dgrams, keylog, meta = QS.build(qcfg, SC.SymSrc("q."))
            c02.assume_cids_prefix_free(c, meta)
            c02.assume_no_accidental_cid(c, meta, dgrams)
            blocks += [(float(ts), fr) for fr, ts, _ in P.udp_frames(ep, dgrams)]
        if cfg.get("version_negotiation"):
            dl, sl, nv = sym_choice("vn_dcid_len", [0, 1, 4]), sym_choice("vn_scid_len", [0, 1, 4]), sym_choice("vn_versions", [1, 2])
            payload = sym_bytes("udp", 7 + dl + sl + 4 * nv)
            c.assume((payload[0] & 0x80) == 0x80)
            c.assume(payload[1:5] == bytes(4))
            c.assume(payload[5] == dl)
            c.assume(payload[6 + dl] == sl)
        elif cfg.get("retry_shaped"):
            dl, sl = sym_choice("rt_dcid_len", [0, 4]), sym_choice("rt_scid_len", [4, 8])
            payload = sym_bytes("udp", 7 + dl + sl + 2 + 16)
            c.assume((payload[0] & 0xF0) == 0xF0)
            c.assume(payload[1:5] == b"\x00\x00\x00\x01")
            c.assume(payload[5] == dl)
            c.assume(payload[6 + dl] == sl)
        else:
            payload = sym_bytes("udp", cfg["n"])
        if cfg.get("short_header"):
            c.assume((payload[0] & 0xC0) == 0x40)
        src_ep = ep if "other-address" not in cfg["context"] else P.Endpoint(ipv=4, c_port=52000, c_ip=b"\x0a\x00\x00\x07", s_ip=b"\x0a\x00\x00\x08", s_port=9999)
        seg = F.udp_segment(F.u16(src_ep.c_port), F.u16(src_ep.s_port), payload)
        foreign = F.ethernet(src_ep.s_mac, src_ep.c_mac, False, F.ip_header(False, src_ep.c_ip, src_ep.s_ip, 17, len(seg)) + seg)
        healthy = list(blocks)
        if inside and blocks:
            pos = sym_choice("foreign_pos", list(range(len(blocks) - 2, len(blocks) + 1)))
            blocks.insert(pos, (blocks[pos - 1][0] + 0.5, foreign))
        elif cfg["context"].startswith("before"):
            blocks.insert(0, (50.0, foreign))
        else:
            blocks.append((500.0, foreign))
        try:
            out = _run(mods, blocks, keylog)
            ref = _run(mods, healthy, keylog) if healthy and "other-address" in cfg["context"] else None
        except (Exception, RD.ExitCalled, _Budget) as e:
            c.fail("run-completes", _fail_detail(e))
            return {"outcome": "aborted"}
        c.check(True, "run-completes")
        if ref is not None:
            c.check(_same(_summ(out, ep, "UDP"), _summ(ref, ep, "UDP")), "bystander-unaffected", "a datagram between other endpoints changed the export of the QUIC connection")
        return {"outcome": "completed", "validate": False}
    return explore_cfg(scenario, cfg, timeout_ms=60000, sample_paths=1, max_paths=60000, max_concretise=600)


def _run_tcp(cfg):
    from tlv.sx.core import ctx
    from tlv.sx.symbytes import sym_bytes
    from tlv.harness import pipeline as P, rundriver as RD
    from tlv.harness.common import explore_cfg
    from tlv.oracle import frames as F
    mods = P.setup_symbolic()

    def scenario():
        c = ctx()
        ep = P.Endpoint(ipv=4)
        by_items, by_kl, _, by_ep = _bystander()
        blocks = [(float(ts), fr) for fr, ts, *_ in P.tcp_frames(by_ep, by_items)]
        seq = 1
        for i, n in enumerate(cfg["lens"]):
            data = sym_bytes("seg%d" % i, n)
            sg = F.tcp_segment(F.u16(ep.c_port), F.u16(443), F.u32(seq), F.u32(0), 0x18, data)
            seq += n
            blocks.insert(2 + i, (50.0 + i, F.ethernet(ep.s_mac, ep.c_mac, False, F.ip_header(False, ep.c_ip, ep.s_ip, 6, len(sg)) + sg)))
        try:
            out = _run(mods, blocks, by_kl)
        except (Exception, RD.ExitCalled, _Budget) as e:
            c.fail("run-completes", _fail_detail(e))
            return {"outcome": "aborted"}
        c.check(True, "run-completes")
        c.check(_same(_summ(out, by_ep), _solo_bystander(mods)), "bystander-unaffected")
        return {"outcome": "completed", "validate": False}
    return explore_cfg(scenario, cfg, timeout_ms=60000, sample_paths=1, max_paths=60000, max_concretise=600)


_CACHE = {}


def _solo_bystander(mods):
    from tlv.harness import pipeline as P
    if "by" not in _CACHE:
        by_items, by_kl, _, by_ep = _bystander()
        out = _run(mods, [(float(ts), fr) for fr, ts, *_ in P.tcp_frames(by_ep, by_items)], by_kl)
        _CACHE["by"] = _summ(out, by_ep)
    return _CACHE["by"]


def _same(a, b):
    from cryptography._model import same_terms
    return len(a) == len(b) and all(x[0] == y[0] and x[2] == y[2] and same_terms(list(x[1]), list(y[1])) for x, y in zip(a, b))


def _run_fault(cfg):
    from tlv.sx.core import ctx, sym_choice, sym_int, sym_not, sym_and, sym_bool
    from tlv.sx.symbytes import sym_bytes, as_symbytes, SymBytes
    from tlv.harness import pipeline as P, rundriver as RD, c02
    from tlv.harness.common import explore_cfg
    from tlv.oracle import scenario as SC, quic_scenario as QS, frames as F
    mods = P.setup_symbolic()
    fault = cfg["fault"]
    is_quic = cfg["victim"] == "quic"

    def scenario():
        c = ctx()
        c.path_data["collision_free"] = True      # ideal hashes / KDFs: different inputs, different keys
        ep = P.Endpoint(ipv=4)
        src = SC.SymSrc("v.")
        if is_quic:
            qcfg = {"suite": 0x1301, "offered": [0x1301], "odcid_len": 8, "c_cid_len": 4, "s_cid_len": 8, "n_app": 3, "data_len": 1, "sym_dirs": False, "dirs": [0, 1, 0]}
            if fault in ("keys-wrong", "overwrite"):
                qcfg.update(n_app=1, dirs=[0])
            dgrams, keylog, meta = QS.build(qcfg, src)
            c02.assume_cids_prefix_free(c, meta)
            c02.assume_no_accidental_cid(c, meta, dgrams)
            units = [{"from_server": d.from_server, "data": as_symbytes(d.data), "ts": float(d.ts)} for d in dgrams]
            sent = {d_: [x.stream for x in dgrams if x.stream is not None and x.from_server == d_] for d_ in (False, True)}
        else:
            vc = dict(TLS_VICTIMS[cfg["victim"]])
            vc.update(records=3, max_len=1, min_len=1, sym_dirs=False, dirs=[0, 1, 0])
            vc.setdefault("grouping", "two")
            if fault == "unknown-suite":
                vc["server_hello_suite_override"] = True
            items, keylog, meta = SC.build(vc, src)
            units = [{"from_server": it.from_server, "data": as_symbytes(it.data), "ts": 100.0 + i, "kind": it.kind} for i, it in enumerate(items)]
            if cfg.get("split3"):
                # every record travels in three segments; the fault hits a segment that is not the first one of its record
                cut = []
                for u in units:
                    n = len(u["data"])
                    a, b = n // 3, 2 * n // 3
                    for k, (lo, hi) in enumerate(((0, a), (a, b), (b, n))):
                        cut.append({"from_server": u["from_server"], "data": SymBytes(u["data"].e[lo:hi]), "ts": u["ts"] + 0.25 * k, "kind": u["kind"], "piece": k})
                units = cut
            sent = {d_: [it.app for it in items if it.app is not None and it.from_server == d_] for d_ in (False, True)}
        # independent secrets are different (negligible collision probability)
        for i in range(len(keylog)):
            for k in range(i):
                if len(keylog[i][2]) == len(keylog[k][2]):
                    c.assume(sym_not(as_symbytes(keylog[i][2]) == keylog[k][2]))
        real_keylog = list(keylog)
        # ---- the fault
        if fault in ("delete", "shorten", "overwrite"):
            mine = _fault_units(cfg, units)
            j = sym_choice("fault_packet", mine)
            u = units[j]
            if fault == "delete":
                u["deleted"] = True
            elif fault == "shorten":
                n = len(u["data"])
                keep = sym_choice("fault_keep", sorted({0, 1, n // 2, n - 1} & set(range(0, n)))) if n > 1 else 0
                u["data_sent"] = SymBytes(u["data"].e[:keep])
            else:
                n = len(u["data"])
                pos = sym_choice("fault_pos", _positions(cfg, n))
                mask = sym_choice("fault_mask", _masks(cfg))
                e = list(u["data"].e)
                e[pos] = (as_symbytes(u["data"])[pos] ^ mask)
                from tlv.sx.symbytes import _int_to_elt
                e[pos] = _int_to_elt(e[pos])
                u["data_sent"] = SymBytes(e)
        if fault == "keys-subset":
            kl = []
            for i, line in enumerate(keylog):
                if sym_choice("keep_line%d" % i, [True, False]):
                    kl.append(line)
            if len(kl) == len(keylog):
                kl = kl[:-1]        # at least one line is removed
            keylog = kl
        elif fault == "keys-wrong":
            keylog = [(lab, cr, sym_bytes("wrong_secret%d" % i, len(sec))) for i, (lab, cr, sec) in enumerate(keylog)]
            for (_, _, w) in keylog:
                for (_, _, r_) in real_keylog:
                    if len(w) == len(r_):
                        c.assume(sym_not(as_symbytes(w) == r_))
        elif fault == "unknown-suite" and not is_quic:
            from tlv.sx.symdict import SymDict
            csp = mods["tlexport.cipher_suite_parser"]
            if not isinstance(csp.cipher_suites, SymDict):
                csp.cipher_suites = SymDict(csp.cipher_suites)
            sid = as_symbytes(meta["sh_suite"])
            for k in dict.keys(csp.cipher_suites):
                c.assume(sym_not(sid == k))
        # ---- frames
        blocks = []
        seq = {False: 1000, True: 5000}
        for u in units:
            fs = u["from_server"]
            data = u["data"]
            s_ = (ep.s_ip, ep.s_port, ep.s_mac) if fs else (ep.c_ip, ep.c_port, ep.c_mac)
            d_ = (ep.c_ip, ep.c_port, ep.c_mac) if fs else (ep.s_ip, ep.s_port, ep.s_mac)
            wire = u.get("data_sent", data)
            if is_quic:
                sg = F.udp_segment(F.u16(s_[1]), F.u16(d_[1]), wire)
                proto = 17
            else:
                sg = F.tcp_segment(F.u16(s_[1]), F.u16(d_[1]), F.u32(seq[fs]), F.u32(0), 0x18, wire)
                seq[fs] += len(data)           # the sender's sequence space is unaffected by what the capture lost
                proto = 6
            if u.get("deleted") or len(wire) == 0:
                continue
            blocks.append((u["ts"], F.ethernet(d_[2], s_[2], False, F.ip_header(False, s_[0], d_[0], proto, len(sg)) + sg)))
        by_items, by_kl, by_meta, by_ep = _bystander()
        c.assume(sym_not(as_symbytes(by_meta["cr"]) == meta["cr"]))          # different connections have different client randoms
        by_blocks = [(300.0 + float(ts) / 100, fr) for fr, ts, *_ in P.tcp_frames(by_ep, by_items)]
        merged = sorted(blocks + by_blocks, key=lambda x: x[0])
        try:
            out = _run(mods, merged, keylog + by_kl)
        except (Exception, RD.ExitCalled, _Budget) as e:
            c.fail("run-completes", _fail_detail(e))
            return {"outcome": "aborted"}
        c.check(True, "run-completes")
        c.check(_same(_summ(out, by_ep), _solo_bystander(mods)), "bystander-unaffected")
        if fault in REMOVING:
            got = _summ(out, ep, "UDP" if is_quic else "TCP")
            conds = []
            for d_ in (False, True):
                g = P.concat([SymBytes(list(x[1])) for x in got if x[0] == d_ and (is_quic or "P" in x[2])])
                w = P.concat(sent[d_])
                if len(g) > len(w):
                    conds.append(False)
                else:
                    conds.append(g == w[:len(g)])
            victim_kind = "aead" if (is_quic or TLS_VICTIMS[cfg["victim"]]["aead"]) else "no-integrity"
            ok = sym_and(*conds)
            if victim_kind == "no-integrity" and fault in ("delete", "shorten") and ok is not True and not cfg.get("split3"):
                # known finding: without integrity protection a lost segment desynchronises the CBC residue / RC4 key stream or skips a record
                import z3
                from tlv.sx.core import SymBool
                if ok is False or (isinstance(ok, SymBool) and c._check(z3.Not(ok.t))):
                    c.known("loss-without-integrity-exports-garbage-or-skips-records", "victim %s fault %s" % (cfg["victim"], fault),
                            witness=None if ok is False else z3.Not(ok.t))
                    return {"outcome": "known-finding", "validate": False}
            if is_quic and fault in ("delete", "shorten") and ok is not True:
                # known finding: QUIC data is exported datagram by datagram without stream reassembly, so data after a lost datagram still appears
                import z3
                from tlv.sx.core import SymBool
                if ok is False or (isinstance(ok, SymBool) and c._check(z3.Not(ok.t))):
                    c.known("quic-loss-later-stream-data-still-exported", "fault %s" % fault, witness=None if ok is False else z3.Not(ok.t))
                    return {"outcome": "known-finding", "validate": False}
            c.check(ok, "victim-prefix-of-plaintext", "fault %s: exported %r bytes per direction, sent %r" % (
                fault, [sum(len(x[1]) for x in got if x[0] == d_) for d_ in (False, True)], [sum(len(z) for z in sent[d_]) for d_ in (False, True)]))
        return {"outcome": "completed", "validate": False}
    return explore_cfg(scenario, cfg, timeout_ms=60000, sample_paths=1, max_paths=60000, max_concretise=600)


def run_config(cfg):
    return {"udp": _run_udp, "tcp": _run_tcp, "fault": _run_fault}[cfg["harness"]](cfg)


# ---- replays on the real program -------------------------------------------------------------------------------------------------

def replay(cfg, viol):
    from tlv import e2e
    from tlv.harness import pipeline as P
    from tlv.oracle import scenario as SC, quic_scenario as QS, frames as F
    inp = viol["inputs"]
    h = cfg["harness"]
    ep = P.Endpoint(ipv=4)
    by_cfg = {"version": "TLS12", "suite": 0xc02f, "suite_name": "TLS_ECDHE_RSA_WITH_AES_128_GCM_SHA256", "records": 2, "max_len": 1, "min_len": 1, "grouping": "one",
              "sym_dirs": False, "dirs": [0, 1]}
    by_items, by_kl, _ = SC.build(by_cfg, SC.ConcreteSrc(inp, prefix="y."))
    by_ep = P.Endpoint(ipv=4, c_port=51000, c_ip=b"\x0a\x00\x00\x09")

    def bystander_frames(t0):
        return e2e.concrete_frames(by_ep, by_items, t0_us=t0, dt_us=10000)
    solo = e2e.run_tlexport(bystander_frames(300000000), e2e.keylog_text(by_kl))
    solo_conv, _ = e2e.streams_of(solo, by_ep)
    pk, kl = [], []
    sent = None
    if h == "udp":
        if cfg["context"] != "alone":
            qcfg = {"suite": 0x1301, "offered": [0x1301], "odcid_len": 8, "c_cid_len": 0 if "quic0" in cfg["context"] else 4, "s_cid_len": 8,
                    "n_app": 2, "data_len": 1, "sym_dirs": False, "dirs": [0, 1]}
            dgrams, kl, meta = QS.build(qcfg, SC.ConcreteSrc(inp, prefix="q."))
            pk += e2e.concrete_udp_frames(ep, dgrams)
        src_ep = ep if "other-address" not in cfg["context"] else P.Endpoint(ipv=4, c_port=52000, c_ip=b"\x0a\x00\x00\x07", s_ip=b"\x0a\x00\x00\x08", s_port=9999)
        healthy = list(pk)
        fr = F.concrete_udp_frame(src_ep.c_mac, src_ep.s_mac, False, src_ep.c_ip, src_ep.s_ip, src_ep.c_port, src_ep.s_port, bytes.fromhex(inp["udp"]))
        if cfg["context"].startswith("inside") and pk:
            opts = list(range(len(pk) - 2, len(pk) + 1))
            pos = opts[inp.get("foreign_pos", 0)]
            pk.insert(pos, (fr, pk[pos - 1][1] + 500000))
        elif cfg["context"].startswith("before"):
            pk.insert(0, (fr, 50000000))
        else:
            pk.append((fr, 500000000))
        r = e2e.run_tlexport(pk, e2e.keylog_text(kl))
        problems = list(r["problems"])
        if healthy and "other-address" in cfg["context"] and not problems:
            r0 = e2e.run_tlexport(healthy, e2e.keylog_text(kl))
            if e2e.udp_of(r, ep) != e2e.udp_of(r0, ep):
                problems.append("the foreign datagram changed the export of the QUIC connection")
        return {"reproduced": bool(problems), "problems": problems[:3]}
    if h == "tcp":
        pk = bystander_frames(300000000)
        seq = 1
        for i, n in enumerate(cfg["lens"]):
            data = bytes.fromhex(inp["seg%d" % i])
            pk.insert(2 + i, (F.concrete_tcp_frame(ep.c_mac, ep.s_mac, False, ep.c_ip, ep.s_ip, ep.c_port, 443, seq, 0, 0x18, data), 300000000 + 15000 + i))
            seq += n
        r = e2e.run_tlexport(pk, e2e.keylog_text(by_kl))
        conv, _ = e2e.streams_of(r, by_ep)
        problems = list(r["problems"])
        if not problems and (conv is None or solo_conv is None or (conv["c2s"], conv["s2c"]) != (solo_conv["c2s"], solo_conv["s2c"])):
            problems.append("bystander export changed")
        return {"reproduced": bool(problems), "problems": problems[:3]}
    # fault
    fault = cfg["fault"]
    is_quic = cfg["victim"] == "quic"
    src = SC.ConcreteSrc(inp, prefix="v.")
    if is_quic:
        qcfg = {"suite": 0x1301, "offered": [0x1301], "odcid_len": 8, "c_cid_len": 4, "s_cid_len": 8, "n_app": 3, "data_len": 1, "sym_dirs": False, "dirs": [0, 1, 0]}
        if fault in ("keys-wrong", "overwrite"):
            qcfg.update(n_app=1, dirs=[0])
        dgrams, keylog, meta = QS.build(qcfg, src)
        units = [{"from_server": d.from_server, "data": bytes(d.data), "ts": int(d.ts * 1000000)} for d in dgrams]
        sent = {d_: b"".join(bytes(x.stream) for x in dgrams if x.stream is not None and x.from_server == d_) for d_ in (False, True)}
    else:
        vc = dict(TLS_VICTIMS[cfg["victim"]])
        vc.update(records=3, max_len=1, min_len=1, sym_dirs=False, dirs=[0, 1, 0])
        vc.setdefault("grouping", "two")
        if fault == "unknown-suite":
            vc["server_hello_suite_override"] = True
        items, keylog, meta = SC.build(vc, src)
        units = [{"from_server": it.from_server, "data": bytes(it.data), "ts": (100 + i) * 1000000, "kind": it.kind} for i, it in enumerate(items)]
        if cfg.get("split3"):
            cut = []
            for u in units:
                n = len(u["data"])
                a, b = n // 3, 2 * n // 3
                for k, (lo, hi) in enumerate(((0, a), (a, b), (b, n))):
                    cut.append({"from_server": u["from_server"], "data": u["data"][lo:hi], "ts": u["ts"] + 250000 * k, "piece": k, "kind": u["kind"]})
            units = cut
        sent = {d_: b"".join(bytes(it.app) for it in items if it.app is not None and it.from_server == d_) for d_ in (False, True)}
    if fault in ("delete", "shorten", "overwrite"):
        mine = _fault_units(cfg, units)
        u = units[mine[inp.get("fault_packet", 0)] if len(mine) > 1 else mine[0]]
        n = len(u["data"])
        if fault == "delete":
            u["deleted"] = True
        elif fault == "shorten":
            opts = sorted({0, 1, n // 2, n - 1} & set(range(0, n))) if n > 1 else [0]
            keep = opts[inp.get("fault_keep", 0)] if len(opts) > 1 else opts[0]
            u["data_sent"] = u["data"][:keep]
        else:
            opts = _positions(cfg, n)
            pos = opts[inp.get("fault_pos", 0)] if len(opts) > 1 else opts[0]
            b = bytearray(u["data"])
            ms = _masks(cfg)
            b[pos] ^= ms[inp.get("fault_mask", 0)] if len(ms) > 1 else ms[0]
            u["data_sent"] = bytes(b)
    if fault == "keys-subset":
        kl2 = [line for i, line in enumerate(keylog) if [True, False][inp.get("keep_line%d" % i, 0)]]
        if len(kl2) == len(keylog):
            kl2 = kl2[:-1]
        keylog = kl2
    elif fault == "keys-wrong":
        keylog = [(lab, cr, bytes.fromhex(inp["wrong_secret%d" % i])) for i, (lab, cr, sec) in enumerate(keylog)]
    seq = {False: 1000, True: 5000}
    for k, u in enumerate(units):
        fs = u["from_server"]
        s_ = (ep.s_mac, ep.s_ip, ep.s_port) if fs else (ep.c_mac, ep.c_ip, ep.c_port)
        d_ = (ep.c_mac, ep.c_ip, ep.c_port) if fs else (ep.s_mac, ep.s_ip, ep.s_port)
        wire = u.get("data_sent", u["data"])
        if is_quic:
            fr = F.concrete_udp_frame(s_[0], d_[0], False, s_[1], d_[1], s_[2], d_[2], wire, k + 1)
        else:
            fr = F.concrete_tcp_frame(s_[0], d_[0], False, s_[1], d_[1], s_[2], d_[2], seq[fs], 0, 0x18, wire, k + 1)
            seq[fs] += len(u["data"])
        if u.get("deleted") or len(wire) == 0:
            continue
        pk.append((fr, u["ts"]))
    pk += bystander_frames(300000000)
    pk.sort(key=lambda x: x[1])
    r = e2e.run_tlexport(pk, e2e.keylog_text(keylog + by_kl))
    problems = list(r["problems"])
    if not problems:
        conv, convs = e2e.streams_of(r, by_ep)
        if conv is None or solo_conv is None or (conv["c2s"], conv["s2c"]) != (solo_conv["c2s"], solo_conv["s2c"]):
            problems.append("bystander export changed")
        if fault in REMOVING:
            if is_quic:
                u = e2e.udp_of(r, ep)
                got = {d_: b"".join(p for dd, p, t in u if dd == d_) for d_ in (False, True)}
            else:
                vconv, _ = e2e.streams_of(r, ep)
                got = {False: vconv["c2s"] if vconv else b"", True: vconv["s2c"] if vconv else b""}
            for d_ in (False, True):
                if not sent[d_].startswith(got[d_]):
                    problems.append("victim %s stream %s is not a prefix of the plaintext %s" % ("server" if d_ else "client", got[d_].hex(), sent[d_].hex()))
    out = {"reproduced": bool(problems), "problems": problems[:4]}
    if problems and all("not a prefix" in p for p in problems) and not is_quic and not TLS_VICTIMS[cfg["victim"]]["aead"] and fault in ("delete", "shorten"):
        out["loss_without_integrity"] = True
    if problems and all("not a prefix" in p for p in problems) and is_quic and fault in ("delete", "shorten"):
        out["quic_loss"] = True
    return out


def validate(cfg, sample):
    return {"agree": True}
