"""C07 - exported packets keep the endpoints, direction and capture time of their origin.

tls  : C01-style connections with symbolic MAC/IP addresses and client port, records cut into small segments, one symbolic
       capture time per input packet; every exported packet must be oriented sender -> receiver with the connection's addresses,
       carry the time of an input packet that overlapped the same record, and the synthetic handshake the first record's time.
quic : the same for QUIC datagrams (time and direction of the input datagram).
ts   : microsecond preservation: the real dpkt_dsb.Reader is run on a block model whose tick words are recording variables
       (tlv.sx.realmodel), the recorded computation of `ts` is composed with dpkt's writer (intround(ts * 1e6)) and decided in the
       standard rounding-error model of IEEE-754 doubles (half an ulp per operation).
segmeta : C05-style cut/duplicated/reordered segments; record.metadata must name exactly the segments overlapping the record."""
import random

VALIDATE = True
SITES = ["no-exception", "metadata-exactly-overlapping-packets", "tls-endpoints-oriented", "tls-times-from-overlapping-packets", "tls-handshake-time", "quic-endpoints-oriented",
         "quic-datagram-time", "ts-expression-recognised", "ts-microsecond-roundtrip"]
MODELS = ["as C01/C02; capture times are symbolic integers (the pipeline only copies and compares them)",
          "IPv4Address/IPv6Address on symbolic bytes: proxy object (shim in session / quic_session)",
          "double arithmetic in the ts lemma: every operation adds an error of at most half an ulp of its result's binade; int -> float conversion is exact up to 2^53"]
ASSUMPTIONS = ["application records are non-empty in the tls harness", "microsecond lemma: ticks < 2^51 us (mid 2041), if_tsresol = 6, no if_tsoffset"]


def configs(tier, seed):
    from tlv.harness import c01, c02
    rnd = random.Random(seed)
    out, seen = [], set()
    for c in c01.configs(tier, seed):
        if c["harness"] != "pipeline":
            continue
        k = (c["version"], c.get("shape")) if tier == "thorough" else (c["version"],)
        if k in seen:
            continue
        seen.add(k)
        for ipv in (4, 6):
            cc = dict(c)
            cc.update(harness="tls", name="tls-%s-v%d" % (c["name"], ipv), ipv=ipv, seg_size=rnd.choice([5, 6, 9]), records=2, max_len=2, min_len=1)
            out.append(cc)
            if ipv == 4:
                cm = dict(cc)
                cm.update(name=cc["name"] + "-metadata", exp_meta=True)
                out.append(cm)
                # the capture starts mid-stream: the first packet of the 4-tuple travels server -> client (a stray record), the connection
                # under test follows; the endpoint roles must still come out by port, for MAC, IP and port alike
                cs = dict(cc)
                cs.update(name=cc["name"] + "-server-first", server_first=True)
                out.append(cs)
    seenq = set()
    for c in c02.configs(tier, seed):
        feat = c["name"].split("-", 1)[1]
        if tier == "quick" and not (c["suite"] == 0x1301 and c["name"].endswith("cid8.4.8")) and not c["name"].startswith("%04x-basic-cid8.0.8" % c["suite"]):
            continue
        for ipv in ((4, 6) if feat.startswith("basic") else (c["ipv"],)):
            cc = dict(c)
            cc.update(harness="quic", name="quic-%s-v%d" % (c["name"], ipv), ipv=ipv)
            out.append(cc)
    out.append({"harness": "ts", "name": "ts-microsecond-lemma", "mode": "real", "validate": False})
    # attribution of records to input packets under cuts, duplicates and reordering (the C05 scenarios, other observation)
    from tlv.harness import c05
    for c5 in c05.configs("quick", seed):          # C05's thorough plans (3 records, 3 cuts) are C05's own subject
        if c5["harness"] != "segmentation" or c5["isn"] != "any":
            continue
        cc = dict(c5)
        cc.update(harness="segmeta", name="segmeta-" + c5["name"])
        out.append(cc)
    return out


def bounds(tier):
    return {"tls": "one suite per version (thorough: per version and handshake shape), IPv4 and IPv6, records cut into 5-9 byte segments, 2 application "
                   "records of 1-2 bytes; MACs, IPs, client port, every capture time symbolic", "quic": "C02 scenarios with symbolic addresses and times",
            "ts lemma": "all tick values below 2^51 microseconds"}


def _sym_endpoint(cfg):
    from tlv.sx.core import ctx, sym_int, sym_not
    from tlv.sx.symbytes import sym_bytes
    from tlv.harness import pipeline as P
    n = 16 if cfg["ipv"] == 6 else 4
    c_ip, s_ip = sym_bytes("client_ip", n), sym_bytes("server_ip", n)
    c_mac, s_mac = sym_bytes("client_mac", 6), sym_bytes("server_mac", 6)
    cp = sym_int("client_port", 0, 65535)
    c = ctx()
    c.assume(sym_not(cp == 443))
    c.assume(sym_not(cp == 44330))
    c.assume(sym_not(c_ip == s_ip))
    return P.Endpoint(ipv=cfg["ipv"], c_port=cp, s_port=443, c_ip=c_ip, s_ip=s_ip, c_mac=c_mac, s_mac=s_mac)


def _oriented(fr, ep, from_server, l4):
    """conditions: frame carries the connection's addresses, oriented sender -> receiver"""
    from tlv.sx.symbytes import as_symbytes
    eth = fr.layer("Ether")
    ip = fr.layer("IP") or fr.layer("IPv6")
    t = fr.layer(l4)
    want_v6 = ep.ipv == 6
    src = (ep.s_mac, ep.s_ip, ep.s_port) if from_server else (ep.c_mac, ep.c_ip, ep.c_port)
    dst = (ep.c_mac, ep.c_ip, ep.c_port) if from_server else (ep.s_mac, ep.s_ip, ep.s_port)
    if eth is None or ip is None or t is None or (ip.name == "IPv6") != want_v6:
        return [False]

    def addr_eq(got, want):
        sb = getattr(got, "sb", None)
        if sb is None:
            return False
        return sb == want
    return [as_symbytes(eth.src) == src[0], as_symbytes(eth.dst) == dst[0], addr_eq(ip.src, src[1]), addr_eq(ip.dst, dst[1]),
            t.sport == src[2], t.dport == dst[2]]


def _sym_port_bytes(port):
    from tlv.sx.core import SymInt
    return port.to_bytes(2, "big") if isinstance(port, SymInt) else int(port).to_bytes(2, "big")


def _run_tls(cfg):
    from tlv.sx.core import ctx, sym_int, sym_and, sym_or
    from tlv.harness import pipeline as P
    from tlv.harness.common import explore_cfg
    from tlv.oracle import scenario as SC, frames as F
    mods = P.setup_symbolic()

    def scenario():
        c = ctx()
        src = SC.SymSrc()
        items, keylog, meta = SC.build(cfg, src)
        ep = _sym_endpoint(cfg)
        # segments: every record cut into seg_size-byte pieces; one symbolic time per input packet
        frames, owners = [], []
        seg = cfg["seg_size"]
        seq = {False: 1000, True: 5000}
        k = 0
        if cfg.get("server_first"):
            stray = bytes([0x17, 3, 3, 0, 2, 0xAA, 0xBB])
            sg = F.tcp_segment(_sym_port_bytes(ep.s_port), _sym_port_bytes(ep.c_port), F.u32(seq[True] - len(stray)), F.u32(0), 0x18, stray)
            t = sym_int("t_stray", 0, (1 << 50))
            frames.append((F.ethernet(ep.c_mac, ep.s_mac, ep.ipv == 6, F.ip_header(ep.ipv == 6, ep.s_ip, ep.c_ip, 6, len(sg)) + sg), t, True))
        for idx, it in enumerate(items):
            data = it.data
            for o in range(0, len(data), seg):
                piece = data[o:o + seg]
                fs = it.from_server
                s_ = (ep.s_ip, ep.s_port, ep.s_mac) if fs else (ep.c_ip, ep.c_port, ep.c_mac)
                d_ = (ep.c_ip, ep.c_port, ep.c_mac) if fs else (ep.s_ip, ep.s_port, ep.s_mac)
                sg = F.tcp_segment(_sym_port_bytes(s_[1]), _sym_port_bytes(d_[1]), F.u32(seq[fs]), F.u32(0), 0x18, piece)
                seq[fs] += len(piece)
                t = sym_int("t%d" % k, 0, (1 << 50))
                frames.append((F.ethernet(d_[2], s_[2], ep.ipv == 6, F.ip_header(ep.ipv == 6, s_[0], d_[0], 6, len(sg)) + sg), t, fs))
                owners.append((idx, t))
                k += 1
        try:
            out, sessions = P.run_tls(mods, frames, P.keylog_objects(mods, keylog), exp_meta=bool(cfg.get("exp_meta")))
        except Exception as e:
            import traceback
            c.fail("no-exception", "%s: %s %s" % (type(e).__name__, e, traceback.format_exc().splitlines()[-3:-1]))
            return {"outcome": "exception"}
        c.check(True, "no-exception")
        if cfg.get("exp_meta"):
            # with -a the first exported record is the ClientHello: the synthetic handshake carries the time of one of its packets,
            # and every exported packet the time of some input packet of the connection
            first = [t for i, t in owners if i == 0]
            alltimes = [t for i, t in owners]
            ok = len(out) >= 5 and all(str(out[k][0].layer("TCP").flags) == f for k, f in enumerate(("S", "SA", "A")))
            if not c.check(ok, "tls-endpoints-oriented", "output does not open with the synthetic handshake (%d packets)" % len(out)):
                return {"outcome": "shape"}
            c.check(sym_and(*[sym_or(*[out[k][1] == m for m in first]) for k in range(3)]), "tls-handshake-time")
            c.check(sym_and(*[sym_or(*[ts == m for m in alltimes]) for fr, ts in out]), "tls-times-from-overlapping-packets")
            return {"outcome": "%d packets with -a" % len(out), "validate": False}
        apps = [(idx, it) for idx, it in enumerate(items) if it.app is not None]
        # expected frame sequence: SYN, SYN-ACK, ACK, then per record its parts (PA + ACK of the peer)
        ori, times = [], []
        pos = 0

        def take():
            nonlocal pos
            if pos >= len(out):
                return None
            x = out[pos]
            pos += 1
            return x
        hs_dirs = [False, True, False]
        first_times = [t for i, t in owners if i == apps[0][0]] if apps else []
        ok_shape = True
        for d in hs_dirs:
            x = take()
            if x is None:
                ok_shape = False
                break
            ori += _oriented(x[0], ep, d, "TCP")
            times.append(("hs", x[1], first_times))
        for idx, it in apps:
            need = len(it.app)
            mine = [t for i, t in owners if i == idx]
            got = 0
            while got < need and ok_shape:
                x = take()
                a = take()
                if x is None or a is None:
                    ok_shape = False
                    break
                raw = x[0].layer("Raw")
                got += len(raw.load) if raw is not None else 0
                ori += _oriented(x[0], ep, it.from_server, "TCP") + _oriented(a[0], ep, not it.from_server, "TCP")
                times.append(("rec", x[1], mine))
                times.append(("rec", a[1], mine))
            if got != need:
                ok_shape = False
        if not c.check(ok_shape and pos == len(out), "tls-endpoints-oriented", "output does not have the shape handshake + parts of each record (%d packets)" % len(out)):
            return {"outcome": "shape"}
        c.check(sym_and(*ori), "tls-endpoints-oriented")
        c.check(sym_and(*[sym_or(*[ts == m for m in ms]) for kind, ts, ms in times if kind == "rec"]), "tls-times-from-overlapping-packets")
        c.check(sym_and(*[sym_or(*[ts == m for m in ms]) for kind, ts, ms in times if kind == "hs"]), "tls-handshake-time")
        return {"outcome": "%d packets" % len(out)}
    return explore_cfg(scenario, cfg, timeout_ms=60000, sample_paths=1)


def _run_quic(cfg):
    from tlv.sx.core import ctx, sym_int, sym_and, sym_not
    from tlv.harness import pipeline as P, c02
    from tlv.harness.common import explore_cfg
    from tlv.oracle import scenario as SC, quic_scenario as QS
    mods = P.setup_symbolic()

    def scenario():
        c = ctx()
        src = SC.SymSrc()
        dgrams, keylog, meta = QS.build(cfg, src)
        c02.assume_cids_prefix_free(c, meta)
        c02.assume_no_accidental_cid(c, meta, dgrams)
        ep = _sym_endpoint(cfg)
        ts = [sym_int("t%d" % i, 0, (1 << 50)) for i in range(len(dgrams))]
        for i in range(len(ts)):
            for j in range(i):
                c.assume(sym_not(ts[i] == ts[j]))
        for d, t in zip(dgrams, ts):
            d.ts = t
        frames = []
        from tlv.oracle import frames as F
        for d in dgrams:
            s_ = (ep.s_ip, ep.s_port, ep.s_mac) if d.from_server else (ep.c_ip, ep.c_port, ep.c_mac)
            d_ = (ep.c_ip, ep.c_port, ep.c_mac) if d.from_server else (ep.s_ip, ep.s_port, ep.s_mac)
            sg = F.udp_segment(_sym_port_bytes(s_[1]), _sym_port_bytes(d_[1]), d.data)
            frames.append((F.ethernet(d_[2], s_[2], ep.ipv == 6, F.ip_header(ep.ipv == 6, s_[0], d_[0], 17, len(sg)) + sg), d.ts, d.from_server))
        try:
            out, sessions = P.run_quic(mods, frames, P.keylog_objects(mods, keylog))
        except Exception as e:
            import traceback
            c.fail("no-exception", "%s: %s %s" % (type(e).__name__, e, traceback.format_exc().splitlines()[-3:-1]))
            return {"outcome": "exception"}
        c.check(True, "no-exception")
        want = [d for d in dgrams if d.stream is not None and len(d.stream) > 0]
        got = [(fr, t) for fr, t in out if hasattr(fr, "layer") and fr.layer("Raw") is not None and len(fr.layer("Raw").load) > 0]
        if not c.check(len(got) == len(want), "quic-endpoints-oriented", "%d non-empty datagrams exported, %d sent" % (len(got), len(want))):
            return {"outcome": "count"}
        ori, tm = [], []
        for (fr, t), d in zip(got, want):
            ori += _oriented(fr, ep, d.from_server, "UDP")
            tm.append(t == d.ts)
        c.check(sym_and(*ori), "quic-endpoints-oriented")
        c.check(sym_and(*tm), "quic-datagram-time")
        return {"outcome": "%d datagrams" % len(got)}
    return explore_cfg(scenario, cfg, timeout_ms=60000, sample_paths=1)


# ---- microsecond lemma -----------------------------------------------------------------------------------------------------

def _run_ts(cfg):
    """The real Reader is run over SHB, IDB(if_tsresol 6), EPB, PB whose tick words are recording variables (tlv.sx.realmodel); the
    recorded floating-point computation is then decided in z3's real arithmetic with one rounding error (half an ulp) per operation."""
    import time
    import z3
    from tlv.sx import realmodel as rm
    t0 = time.time()
    viol, sites = [], {"ts-expression-recognised": 0, "ts-microsecond-roundtrip": 0}
    queries = 0
    inconclusive = []
    exprs = []
    VARIANTS = {"explicit-tsresol-6": (6, 10 ** 6, False), "default-tsresol": (None, 10 ** 6, False), "tsresol-3": (3, 10 ** 3, True),
                "tsresol-9-nearest": (9, 10 ** 9, "nearest"), "tsresol-2^-20-nearest": (20 - 128, 2 ** 20, "nearest")}
    for variant, (raw, _, _) in VARIANTS.items():
        try:
            got = rm.recorded_timestamps(raw, 0) if raw is not None else _default_ts(rm)
        except rm.Unsupported as ex:
            inconclusive.append("timestamp computation not recorded (%s): %s" % (variant, ex))
            continue
        except Exception as ex:
            viol.append({"label": "ts-expression-recognised", "inputs": {"variant": variant}, "detail": "%s: %s" % (type(ex).__name__, ex)})
            continue
        if len(got) != 2:
            viol.append({"label": "ts-expression-recognised", "inputs": {"variant": variant}, "detail": "expected the EPB and PB timestamps, got %d" % len(got)})
            continue
        exprs += [(variant, k, e) for k, e in enumerate(got)]
    for variant, k, e in exprs:
        try:
            s, m, _ = rm.microsecond_query(e, VARIANTS[variant][1], VARIANTS[variant][2])
        except rm.Unsupported as ex:
            inconclusive.append("timestamp computation not modelled: %s" % ex)
            continue
        sites["ts-expression-recognised"] += 1
        r = s.check()
        queries += 1
        sites["ts-microsecond-roundtrip"] += 1
        if r == z3.sat:
            mdl = s.model()
            viol.append({"label": "ts-microsecond-roundtrip", "inputs": {"ts_high": mdl[m.vars["ts_high"]].as_long(), "ts_low": mdl[m.vars["ts_low"]].as_long(), "block": k,
                                                                            "variant": variant},
                         "detail": "model allows a written tick different from the read tick"})
        elif r != z3.unsat:
            inconclusive.append("solver returned %s" % r)
    return {"stats": {"paths": len(exprs), "decisions": len(exprs), "queries": queries, "solver_s": time.time() - t0, "checks": queries},
            "violations": viol, "sites": sites, "inconclusive": inconclusive,
            "samples": [{"path": 0, "inputs": {"expressions": len(exprs)}, "result": "rounding-error model, ticks < 2^51", "validate": False}]}


def _default_ts(rm):
    """No if_tsresol / if_tsoffset options: the defaults of the reader (microseconds)."""
    from tlv.harness import c12
    import tlexport.dpkt_dsb as dd
    dpng, DsbBE, DsbLE = c12.make_dpng(True, [])
    saved = (dd.dpng, dd.DecryptionSecretBlock, dd.DecryptionSecretBlockLE)
    dd.dpng, dd.DecryptionSecretBlock, dd.DecryptionSecretBlockLE = dpng, DsbBE, DsbLE
    try:
        hi, lo = rm.var("ts_high", 32), rm.var("ts_low", 32)
        blocks = [{"type": c12.SHB}, {"type": c12.IDB, "opts": [], "linktype": 1, "snaplen": 65535},
                  {"type": c12.EPB, "ts_high": hi, "ts_low": lo, "pkt_data": b"e"}, {"type": c12.PB, "ts_high": hi, "ts_low": lo, "pkt_data": b"p"}]
        return [t for t, _ in dd.Reader(c12.FileModel(blocks))]
    finally:
        dd.dpng, dd.DecryptionSecretBlock, dd.DecryptionSecretBlockLE = saved


def _run_segmeta(cfg):
    """Session reassembly as in C05; here the observation is record.metadata: exactly the packets whose bytes overlap the record."""
    from tlv.sx import shims
    from tlv.sx.core import ctx, sym_int, sym_choice
    from tlv.sx.symbytes import mixed_bytes
    from tlv.harness import c05
    from tlv.harness.common import explore_cfg
    import tlexport.session as ts
    import tlexport.tlsrecord as tr
    shims.install(ts)
    shims.install(tr)

    def scenario():
        c = ctx()
        plan = c05._plan(cfg, sym_choice)
        nrec, lens, total, segs, order, other_pos = plan
        recs = [mixed_bytes("rec%d" % i, [3, (lens[i]).to_bytes(2, "big"), lens[i]]) for i in range(nrec)]
        other = mixed_bytes("other", [3, b"\x00\x01", 1])
        isn = sym_int("isn", 0, (1 << 32) - 1)
        isn_o = sym_int("isn_other", 0, (1 << 32) - 1)
        pkts = c05._build(cfg, plan, recs, other, isn, isn_o)
        try:
            s, got = c05._run_session(pkts)
        except Exception as e:
            c.fail("no-exception", "%s: %s" % (type(e).__name__, e))
            return {"outcome": "exception"}
        c.check(True, "no-exception")
        main_server = cfg["main"] == "server"
        if c05._ooo_event(s, got, plan, main_server):
            return {"outcome": "known C05 finding", "validate": False}
        mine = [r for r, f in got if c05._from_main(r, main_server)]
        if len(mine) != nrec:
            return {"outcome": "incomplete (C05's subject)", "validate": False}
        start = 0
        bad = []
        for i, r in enumerate(mine):
            end = start + 5 + lens[i]
            want = ["main%d" % k for k, (a, b) in enumerate(segs) if a < end and b > start]
            have = [p.tag for p in r.metadata]
            if have != want:
                bad.append("record %d [%d,%d): attributed to %r, carried by %r" % (i, start, end, have, want))
            start = end
        c.check(not bad, "metadata-exactly-overlapping-packets", "; ".join(bad[:2]))
        return {"outcome": "ok", "validate": False}
    return explore_cfg(scenario, cfg, timeout_ms=60000, max_paths=300000, sample_paths=1)


def run_config(cfg):
    return {"tls": _run_tls, "quic": _run_quic, "ts": _run_ts, "segmeta": _run_segmeta}[cfg["harness"]](cfg)


def _replay_segmeta(cfg, inp):
    from tlv.harness import c05

    def choose(name, options):
        return options[inp[name]] if len(options) > 1 else options[0]
    plan = c05._plan(cfg, choose)
    nrec, lens, total, segs, order, other_pos = plan
    recs = [bytes.fromhex(inp["rec%d" % i]) for i in range(nrec)]
    pkts = c05._build(cfg, plan, recs, bytes.fromhex(inp["other"]), inp["isn"], inp["isn_other"])
    s, got = c05._run_session(pkts)
    main_server = cfg["main"] == "server"
    mine = [r for r, f in got if c05._from_main(r, main_server)]
    problems = []
    start = 0
    for i, r in enumerate(mine[:nrec]):
        end = start + 5 + lens[i]
        want = ["main%d" % k for k, (a, b) in enumerate(segs) if a < end and b > start]
        have = [p.tag for p in r.metadata]
        if have != want:
            problems.append("record %d attributed to %r, carried by %r" % (i, have, want))
        start = end
    return {"reproduced": bool(problems), "problems": problems[:3]}


def replay(cfg, viol):
    h = cfg["harness"]
    inp = viol["inputs"]
    if h == "segmeta":
        return _replay_segmeta(cfg, inp)
    if h == "ts":
        # concrete round trip through the real reader and dpkt's writer
        import io
        import dpkt
        from tlexport.dpkt_dsb import Reader
        from tlv.oracle import pcapng
        if viol["label"] != "ts-microsecond-roundtrip":
            return {"reproduced": True, "why": viol.get("detail")}
        ticks = (inp["ts_high"] << 32) | inp["ts_low"]
        from fractions import Fraction
        raw, div, mode = {"explicit-tsresol-6": (6, 10 ** 6, False), "default-tsresol": (None, 10 ** 6, False), "tsresol-3": (3, 10 ** 3, True),
                          "tsresol-9-nearest": (9, 10 ** 9, "nearest"), "tsresol-2^-20-nearest": (128 + 20, 2 ** 20, "nearest")}[inp.get("variant", "explicit-tsresol-6")]
        buf = io.BytesIO(pcapng.shb() + pcapng.idb(tsresol=raw) + (pcapng.epb if inp.get("block", 0) == 0 else pcapng.pb)(b"\x00" * 20, ticks))
        got = [ts for ts, b in Reader(buf)]
        out = io.BytesIO()
        w = dpkt.pcapng.Writer(out)
        w.writepkt(b"\x00" * 20, got[0])
        raw = out.getvalue()
        import tempfile, os
        with tempfile.NamedTemporaryFile(delete=False, prefix="tlv-ts-") as f:
            f.write(raw)
        try:
            back = pcapng.read_capture(f.name)[0][1]
        finally:
            os.unlink(f.name)
        want = Fraction(ticks * 10 ** 6, div)
        bad = abs(back - want) >= 1 if mode == "nearest" else back != want
        return {"reproduced": bool(bad), "instant_microseconds": str(want), "written": back}
    return _replay_e2e(cfg, inp)


def _replay_e2e(cfg, inp):
    """Real program on the concrete scenario: orientation and times of every exported packet."""
    from tlv import e2e
    from tlv.harness import pipeline as P
    from tlv.oracle import scenario as SC, quic_scenario as QS, frames as F
    src = SC.ConcreteSrc(inp)
    n = 16 if cfg["ipv"] == 6 else 4
    ep = P.Endpoint(ipv=cfg["ipv"], c_port=inp["client_port"], s_port=443, c_ip=bytes.fromhex(inp["client_ip"]), s_ip=bytes.fromhex(inp["server_ip"]),
                    c_mac=bytes.fromhex(inp["client_mac"]), s_mac=bytes.fromhex(inp["server_mac"]))
    problems = []
    if cfg["harness"] == "tls":
        items, keylog, meta = SC.build(cfg, src)
        seg = cfg["seg_size"]
        pk, owners, k = [], [], 0
        seq = {False: 1000, True: 5000}
        if cfg.get("server_first"):
            stray = bytes([0x17, 3, 3, 0, 2, 0xAA, 0xBB])
            pk.append((F.concrete_tcp_frame(ep.s_mac, ep.c_mac, ep.ipv == 6, ep.s_ip, ep.c_ip, ep.s_port, ep.c_port, seq[True] - len(stray), 0, 0x18, stray, 0),
                       inp["t_stray"]))
        for idx, it in enumerate(items):
            data = bytes(it.data)
            for o in range(0, len(data), seg):
                piece = data[o:o + seg]
                fs = it.from_server
                s_ = (ep.s_ip, ep.s_port, ep.s_mac) if fs else (ep.c_ip, ep.c_port, ep.c_mac)
                d_ = (ep.c_ip, ep.c_port, ep.c_mac) if fs else (ep.s_ip, ep.s_port, ep.s_mac)
                t = inp["t%d" % k]
                pk.append((F.concrete_tcp_frame(s_[2], d_[2], ep.ipv == 6, s_[0], d_[0], s_[1], d_[1], seq[fs], 0, 0x18, piece, k + 1), t))
                seq[fs] += len(piece)
                owners.append((idx, t))
                k += 1
        r = e2e.run_tlexport(pk, e2e.keylog_text(keylog), args=["-a"] if cfg.get("exp_meta") else [])
        problems += r["problems"]
        apps = [(idx, it) for idx, it in enumerate(items) if it.app is not None]
        fr = [d for d in r["frames"] if d.get("l4") == "tcp"]
        if cfg.get("exp_meta"):
            first = [t for i, t in owners if i == 0]
            alltimes = [t for i, t in owners]
            for d in fr[:3]:
                if d["ts"][0] not in first:
                    problems.append("handshake time %d is not a time of the first exported record (ClientHello) %s" % (d["ts"][0], first))
            for d in fr:
                if d["ts"][0] not in alltimes:
                    problems.append("packet time %d is not the time of an input packet" % d["ts"][0])
            return {"reproduced": bool(problems), "problems": problems[:4]}
        c_side, s_side = (ep.c_mac, ep.c_ip, ep.c_port), (ep.s_mac, ep.s_ip, ep.s_port)
        for d in fr:
            a = (d["eth_src"], d["src"], d["sport"])
            b = (d["eth_dst"], d["dst"], d["dport"])
            if not ((a == c_side and b == s_side) or (a == s_side and b == c_side)):
                problems.append("packet with foreign addresses %s -> %s" % (a, b))
        if apps and len(fr) >= 3:
            first = [t for i, t in owners if i == apps[0][0]]
            for d in fr[:3]:
                if d["ts"][0] not in first:
                    problems.append("handshake time %d is not a time of the first record %s" % (d["ts"][0], first))
        pos = 3
        for idx, it in apps:
            mine = [t for i, t in owners if i == idx]
            got = 0
            while got < len(it.app) and pos + 1 < len(fr) + 1 and pos < len(fr):
                d = fr[pos]
                if (d["src"] == ep.s_ip) != it.from_server:
                    problems.append("record of %s exported from %s" % ("server" if it.from_server else "client", d["src"].hex()))
                if d["ts"][0] not in mine:
                    problems.append("data packet time %d not among the record's packet times %s" % (d["ts"][0], mine))
                got += len(d["payload"])
                pos += 2
    else:
        dgrams, keylog, meta = QS.build(cfg, src)
        for i, d in enumerate(dgrams):
            d.ts = inp["t%d" % i]
        pk = []
        for i, d in enumerate(dgrams):
            s_ = (ep.s_ip, ep.s_port, ep.s_mac) if d.from_server else (ep.c_ip, ep.c_port, ep.c_mac)
            d_ = (ep.c_ip, ep.c_port, ep.c_mac) if d.from_server else (ep.s_ip, ep.s_port, ep.s_mac)
            pk.append((F.concrete_udp_frame(s_[2], d_[2], ep.ipv == 6, s_[0], d_[0], s_[1], d_[1], bytes(d.data), i + 1), d.ts))
        r = e2e.run_tlexport(pk, e2e.keylog_text(keylog))
        problems += r["problems"]
        got = [d for d in r["frames"] if d.get("l4") == "udp" and len(d["payload"]) > 0]
        want = [d for d in dgrams if d.stream is not None and len(d.stream) > 0]
        if len(got) != len(want):
            problems.append("%d non-empty datagrams exported, %d sent" % (len(got), len(want)))
        for g, w in zip(got, want):
            s_ = (ep.s_mac, ep.s_ip, ep.s_port) if w.from_server else (ep.c_mac, ep.c_ip, ep.c_port)
            d_ = (ep.c_mac, ep.c_ip, ep.c_port) if w.from_server else (ep.s_mac, ep.s_ip, ep.s_port)
            if (g["eth_src"], g["src"], g["sport"]) != s_ or (g["eth_dst"], g["dst"], g["dport"]) != d_:
                problems.append("datagram not oriented sender -> receiver")
            if g["ts"][0] != w.ts:
                problems.append("datagram time %d, input datagram time %d" % (g["ts"][0], w.ts))
    return {"reproduced": bool(problems), "problems": problems[:5]}


def validate(cfg, sample):
    if cfg["harness"] in ("ts", "segmeta"):
        return {"agree": True}
    r = _replay_e2e(cfg, sample["inputs"])
    return {"agree": not r["reproduced"], **r}
