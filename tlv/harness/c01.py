"""C01 - TLS-over-TCP application data is exported exactly (all versions, all suites).

pipeline : reference endpoints (handshake + application records, ideal crypto) -> frames -> real Packet -> main.handle_packet ->
           Session -> Decryptor -> OutputBuilder; the concatenated Raw loads per direction must equal the bytes sent.
step     : one record from an arbitrary cipher state (symbolic sequence numbers / CBC residue / RC4 position) per decrypt method."""
import random

VALIDATE = True
SITES = ["no-exception", "client-stream-equals-sent", "server-stream-equals-sent"]
MODELS = ["cryptography: ideal model tlv/stubs/cryptography (UF hashes/HMAC/HKDF/block permutations/key streams, AEAD event table)",
          "scapy: recorder classes tlv/stubs/scapy", "dpkt (in tlexport.packet): tlv/models/dpkt_model.py",
          "key log: keylog_reader.Key objects with symbolic hex fields (parsing of the text is C09's subject)"]
ASSUMPTIONS = ["distinct AEAD encryptions give distinct ciphertexts; a ciphertext decrypts only under the key, nonce and AAD it was made with",
               "MAC bytes are opaque (TLExport strips but never verifies them)",
               "one TLS record per TCP segment (segmentation is C05's subject)",
               "not claimed: compression, renegotiation, KeyUpdate/0-RTT/HRR, data after an alert, 4-tuple reuse"]

SHAPES_LEGACY = [
    {"shape": "full-separate", "grouping": "separate"},
    {"shape": "full-one-record", "grouping": "one", "sid_len": 32},
    {"shape": "full-two-records", "grouping": "two", "sid_len": 1, "extra_ext": True},
    {"shape": "abbreviated", "abbreviated": True, "sid_len": 32},
]
SHAPES_13 = [
    {"shape": "separate", "grouping": "separate"},
    {"shape": "one-record-ccs", "grouping": "one", "compat_ccs": True, "sid_len": 32},
    {"shape": "two-records-no-hs-secrets", "grouping": "two", "hs_secrets": False},
    {"shape": "padded", "grouping": "one", "pad": 2, "hs_pad": 1},
    {"shape": "ticket", "grouping": "separate", "ticket_at": 1, "compat_ccs": True},
]


def all_suites():
    """(code, name) of TLExport's table - read from the repository source without importing cryptography."""
    import ast
    import os
    src = open(os.path.join(os.environ.get("TLV_REPO", "/repo"), "tlexport", "cipher_suite_parser.py")).read()
    tree = ast.parse(src)
    for node in tree.body:
        if isinstance(node, ast.Assign) and getattr(node.targets[0], "id", None) == "cipher_suites":
            d = ast.literal_eval(node.value)
            return sorted((int.from_bytes(k, "big"), v) for k, v in d.items())
    raise RuntimeError("cipher_suites table not found")


def configs(tier, seed):
    from tlv.oracle import suites as S
    rnd = random.Random(seed)
    table = all_suites()
    by_class = {}
    for code, name in table:
        p = S.parse_name(name)
        if p is None:
            continue
        for v in S.valid_versions(name):
            if p["algorithm"] == "IDEA" and v == "TLS12":
                continue   # RFC 5469: IDEA suites are not to be negotiated in TLS 1.2
            cls = (v, p["algorithm"], p["mode"], p["key_len"], p["hash"], p["tag_len"])
            by_class.setdefault(cls, []).append((code, name))
    out = []
    for cls, members in sorted(by_class.items()):
        v = cls[0]
        chosen = members if tier == "thorough" else [rnd.choice(members)]
        shapes = SHAPES_13 if v == "TLS13" else SHAPES_LEGACY
        for code, name in chosen:
            sh_list = shapes if (tier == "thorough" or True) else [rnd.choice(shapes)]
            if tier == "quick" and v != "TLS13":
                sh_list = [shapes[0], rnd.choice(shapes[1:])]
            for sh in sh_list:
                base = {"harness": "pipeline", "version": v, "suite": code, "suite_name": name, "ipv": rnd.choice([4, 6]),
                        "records": 2 if tier == "quick" else 3, "max_len": 2, **sh}
                variants = [{}]
                if cls[2] == "CBC":
                    variants = [{}, {"etm": True}] if (tier == "thorough" or sh is shapes[0]) else [{}]
                if v != "TLS13" and sh is shapes[0]:
                    variants = variants + [{"keylog_label": "RSA"}]
                for var in variants:
                    c = dict(base)
                    c.update(var)
                    c["name"] = "%s-%04x-%s%s%s" % (v, code, sh["shape"], "-etm" if var.get("etm") else "", "-rsa" if var.get("keylog_label") else "")
                    out.append(c)
    return out


def bounds(tier):
    return {"suites": "every behaviour class (version, cipher, mode, key length, hash, tag length) of TLExport's table; "
                      + ("all members of each class" if tier == "thorough" else "one member per class chosen by VERIF_SEED"),
            "handshake shapes": [s["shape"] for s in SHAPES_LEGACY] + [s["shape"] for s in SHAPES_13],
            "application records": "%d, each of solver-chosen length 0..2 and solver-chosen direction; all content, randoms, secrets, "
                                   "explicit IVs/nonces, MAC bytes symbolic" % (2 if tier == "quick" else 3),
            "outside": "records longer than 2 bytes in the pipeline harness (block-boundary lengths are covered by the step harness), "
                       "more than 3 records, compression, renegotiation"}


def scenario_outputs(cfg, mods, src):
    from tlv.harness import pipeline as P
    from tlv.oracle import scenario as SC
    items, keylog, meta = SC.build(cfg, src)
    ep = P.Endpoint(ipv=cfg.get("ipv", 4))
    frames = P.tcp_frames(ep, items)
    out, sessions = P.run_tls(mods, frames, P.keylog_objects(mods, keylog), exp_meta=cfg.get("exp_meta", False))
    return items, out, ep, sessions


def run_config(cfg):
    from tlv.sx.core import ctx
    from tlv.harness import pipeline as P
    from tlv.harness.common import explore_cfg
    from tlv.oracle import scenario as SC
    mods = P.setup_symbolic()

    def scenario():
        c = ctx()
        src = SC.SymSrc()
        try:
            items, out, ep, sessions = scenario_outputs(cfg, mods, src)
        except Exception as e:
            import traceback
            c.fail("no-exception", "%s: %s @ %s" % (type(e).__name__, e, traceback.format_exc().splitlines()[-3:-1]))
            return {"outcome": "exception"}
        c.check(True, "no-exception")
        st = P.tcp_streams(out, ep)
        for d, label in ((False, "client-stream-equals-sent"), (True, "server-stream-equals-sent")):
            want = P.concat([it.app for it in items if it.app is not None and it.from_server == d])
            got = P.concat([x[0] for x in st[d]])
            c.check(len(want) == len(got) and (got == want), label,
                    "sent %d bytes, exported %d bytes in %d packets" % (len(want), len(got), len(st[d])))
        return {"outcome": "exported", "packets": len(out)}
    return explore_cfg(scenario, cfg, timeout_ms=60000, sample_paths=1)


def concrete(cfg, inp, args=()):
    """End-to-end on the real program."""
    from tlv import e2e
    from tlv.harness import pipeline as P
    from tlv.oracle import scenario as SC
    src = SC.ConcreteSrc(inp)
    items, keylog, meta = SC.build(cfg, src)
    ep = P.Endpoint(ipv=cfg.get("ipv", 4))
    pk = e2e.concrete_frames(ep, items)
    res = e2e.run_tlexport(pk, e2e.keylog_text(keylog), args=args)
    problems = list(res["problems"])
    conv, convs = e2e.streams_of(res, ep)
    want = {d: b"".join(bytes(it.app) for it in items if it.app is not None and it.from_server == d) for d in (False, True)}
    got = {False: conv["c2s"] if conv else b"", True: conv["s2c"] if conv else b""}
    if conv:
        problems += conv["problems"]
    for d in (False, True):
        if got[d] != want[d]:
            problems.append("%s stream: exported %s, sent %s" % ("server" if d else "client", got[d].hex(), want[d].hex()))
    return {"ok": not problems, "problems": problems[:6], "stderr": res.get("stderr", "")[-400:] if problems else ""}


def replay(cfg, viol):
    r = concrete(cfg, viol["inputs"])
    return {"reproduced": not r["ok"], **r}


def validate(cfg, sample):
    r = concrete(cfg, sample["inputs"])
    return {"agree": r["ok"], **r}
