"""C01 - TLS-over-TCP application data is exported exactly (all versions, all suites).

pipeline : reference endpoints (handshake + application records, ideal crypto) -> frames -> real Packet -> main.handle_packet ->
           Session -> Decryptor -> OutputBuilder; the concatenated Raw loads per direction must equal the bytes sent.
step     : one record from an arbitrary cipher state (symbolic sequence numbers / CBC residue / RC4 position) per decrypt method."""
import random

VALIDATE = True
SITES = ["no-exception", "client-stream-equals-sent", "server-stream-equals-sent", "step-plaintext", "step-state-advanced", "step-no-exception"]
MODELS = ["cryptography: ideal model tlv/stubs/cryptography (UF hashes/HMAC/HKDF/block permutations/key streams, AEAD event table)",
          "scapy: recorder classes tlv/stubs/scapy", "dpkt (in tlexport.packet): tlv/models/dpkt_model.py",
          "key log: keylog_reader.Key objects with symbolic hex fields (parsing of the text is C09's subject)"]
ASSUMPTIONS = ["distinct AEAD encryptions give distinct ciphertexts; a ciphertext decrypts only under the key, nonce and AAD it was made with",
               "MAC bytes are opaque (TLExport strips but never verifies them)",
               "one TLS record per TCP segment except in the -segmented configurations (each direction's byte stream cut into 11-byte segments without regard to record boundaries); arbitrary "
               "segmentation, duplication and reordering are C05's subject",
               "not claimed: compression, renegotiation, KeyUpdate/0-RTT/HRR, data after an alert, 4-tuple reuse"]

SHAPES_LEGACY = [
    {"shape": "full-separate", "grouping": "separate"},
    {"shape": "full-one-record", "grouping": "one", "sid_len": 32},
    {"shape": "full-two-records", "grouping": "two", "sid_len": 1, "extra_ext": True},
    {"shape": "abbreviated", "abbreviated": True, "sid_len": 32},
    {"shape": "full-session-ticket", "grouping": "separate", "session_ticket": True},
]
SHAPES_13 = [
    {"shape": "separate", "grouping": "separate"},
    {"shape": "one-record-ccs", "grouping": "one", "compat_ccs": True, "sid_len": 32},
    {"shape": "two-records-no-hs-secrets", "grouping": "two", "hs_secrets": False},
    {"shape": "padded", "grouping": "one", "pad": 2, "hs_pad": 1},
    {"shape": "ticket", "grouping": "separate", "ticket_at": 1, "compat_ccs": True},
]


def all_suites():
    """(code, name) of TLExport's table - read from the repository source without importing cryptography."""
    import ast
    import os
    src = open(os.path.join(os.environ.get("TLV_REPO", "/repo"), "tlexport", "cipher_suite_parser.py")).read()
    tree = ast.parse(src)
    for node in tree.body:
        if isinstance(node, ast.Assign) and getattr(node.targets[0], "id", None) == "cipher_suites":
            d = ast.literal_eval(node.value)
            return sorted((int.from_bytes(k, "big"), v) for k, v in d.items())
    raise RuntimeError("cipher_suites table not found")


def configs(tier, seed):
    from tlv.oracle import suites as S
    rnd = random.Random(seed)
    table = all_suites()
    by_class = {}
    for code, name in table:
        p = S.parse_name(name)
        if p is None:
            continue
        for v in S.valid_versions(name):
            if p["algorithm"] == "IDEA" and v == "TLS12":
                continue   # RFC 5469: IDEA suites are not to be negotiated in TLS 1.2
            cls = (v, p["algorithm"], p["mode"], p["key_len"], p["hash"], p["tag_len"])
            by_class.setdefault(cls, []).append((code, name))
    out = []
    for cls, members in sorted(by_class.items()):
        v = cls[0]
        chosen = members if tier == "thorough" else [rnd.choice(members)]
        shapes = SHAPES_13 if v == "TLS13" else SHAPES_LEGACY
        for idx, (code, name) in enumerate(chosen):
            # thorough: every member of the class with the first handshake shape, the class's first member with every shape
            sh_list = shapes if (tier == "quick" or idx == 0) else [shapes[0]]
            if tier == "quick" and v != "TLS13":
                sh_list = [shapes[0], rnd.choice(shapes[1:])]
                # cipher state that a spurious decryption would disturb (key stream position, CBC residue, nonce counter): always with
                # the clear-text NewSessionTicket between the client's Finished and the server's ChangeCipherSpec
                if (cls[1] in ("RC4", "CHACHA20") or (v in ("SSL30", "TLS10") and cls[2] == "CBC" and cls[1] == "AES")) and SHAPES_LEGACY[4] not in sh_list:
                    sh_list.append(SHAPES_LEGACY[4])
            for sh in sh_list:
                base = {"harness": "pipeline", "version": v, "suite": code, "suite_name": name, "ipv": rnd.choice([4, 6]),
                        "records": 2 if tier == "quick" else 3, "max_len": 1 if tier == "quick" else 2, **sh}
                variants = [{}]
                if cls[2] == "CBC":
                    variants = [{}, {"etm": True}] if (tier == "thorough" or sh is shapes[0]) else [{}]
                if v != "TLS13" and sh is shapes[0]:
                    variants = variants + [{"keylog_label": "RSA"}]
                for var in variants:
                    c = dict(base)
                    c.update(var)
                    c["name"] = "%s-%04x-%s%s%s" % (v, code, sh["shape"], "-etm" if var.get("etm") else "", "-rsa" if var.get("keylog_label") else "")
                    out.append(c)
    # ---- application records spread over several TCP segments (lengths that do not divide by the number of segments)
    seen = set()
    for c in list(out):
        k = (c["version"], c["suite_name"].split("_WITH_")[-1].rsplit("_", 1)[0].split("_")[0])
        if c.get("shape") not in ("full-separate", "separate") or c.get("etm") or c.get("keylog_label") or k in seen:
            continue
        if tier == "quick" and c["version"] in ("SSL30", "TLS11"):
            continue
        seen.add(k)
        cc = dict(c)
        cc.update(name=c["name"] + "-segmented", seg_size=11, records=2, min_len=1, max_len=3, stream_segments=True)
        out.append(cc)
        if len(seen) <= 3 or tier == "thorough":
            # the same with initial sequence numbers just below 2^32: both directions wrap inside the handshake / the data
            cw = dict(cc)
            cw.update(name=c["name"] + "-segmented-seq-wrap", isn_c=(1 << 32) - 70, isn_s=(1 << 32) - 45)
            out.append(cw)
            # both directions start at the same sequence number: every segment of one direction has a twin with the same number in the
            # other one (state shared between the directions - a duplicate filter, a buffer - shows)
            ci = dict(cc)
            ci.update(name=c["name"] + "-segmented-same-isn", isn_c=1000, isn_s=1000)
            out.append(ci)
    # ---- one record from an arbitrary cipher state, one configuration per behaviour class
    for cls, members in sorted(by_class.items()):
        code, name = members[0] if tier == "quick" else rnd.choice(members)
        kinds = [False, True] if cls[2] == "CBC" else [False]
        for etm in kinds:
            out.append({"harness": "step", "name": "step-%s-%04x%s" % (cls[0], code, "-etm" if etm else ""), "version": cls[0], "suite": code,
                        "suite_name": name, "etm": etm, "validate": False, "tier": tier})
    return out


def bounds(tier):
    return {"suites": "every behaviour class (version, cipher, mode, key length, hash, tag length) of TLExport's table; "
                      + ("all members of each class (first handshake shape; every shape for one member)" if tier == "thorough" else "one member per class chosen by VERIF_SEED"),
            "handshake shapes": [s["shape"] for s in SHAPES_LEGACY] + [s["shape"] for s in SHAPES_13],
            "application records": "%d, each of solver-chosen length 0..%d and solver-chosen direction; all content, randoms, secrets, "
                                   "explicit IVs/nonces, MAC bytes symbolic" % ((2, 1) if tier == "quick" else (3, 2)),
            "step harness": "one record from an arbitrary state: sequence number in [0, 2^64-1), arbitrary CBC residue, RC4 position "
                            "< 2^40, TLS 1.3 epoch handshake/application; plaintext 0..%s bytes for CBC, 0..3 otherwise; TLS 1.3 padding "
                            "0/1/3; one extra padding block" % ("2 blocks + 2" if tier == "thorough" else "1 block + 1"),
            "outside": "records longer than 2 bytes in the pipeline harness (block-boundary lengths are covered by the step harness), "
                       "more than 3 records, compression, renegotiation"}


def scenario_outputs(cfg, mods, src):
    from tlv.harness import pipeline as P
    from tlv.oracle import scenario as SC
    items, keylog, meta = SC.build(cfg, src)
    ep = P.Endpoint(ipv=cfg.get("ipv", 4), isn_c=cfg.get("isn_c", 1000), isn_s=cfg.get("isn_s", 5000))
    frames = P.tcp_frames(ep, items, seg_size=cfg.get("seg_size"), group=P.stream_groups(items) if cfg.get("stream_segments") else None)
    out, sessions = P.run_tls(mods, frames, P.keylog_objects(mods, keylog), exp_meta=cfg.get("exp_meta", False))
    return items, out, ep, sessions


def _run_step(cfg):
    """Decryptor.decrypt on one record from an arbitrary (symbolic) cipher state."""
    from tlv.sx.core import ctx, sym_int, sym_choice, sym_bool, sym_and
    from tlv.sx.symbytes import sym_bytes, as_symbytes
    from tlv.harness import pipeline as P
    from tlv.harness.common import explore_cfg
    from tlv.oracle import scenario as SC, tls as T
    mods = P.setup_symbolic()
    sess_mod = mods["tlexport.session"]
    TlsVersion = mods["tlexport.session"].TlsVersion
    version = cfg["version"]

    def scenario():
        c = ctx()
        src = SC.SymSrc()
        sp = T.SuiteParams(cfg["suite"], cfg["suite_name"])
        conn = T.Conn(version, sp, src, etm=cfg["etm"])
        cr, sr = src.bytes("client_random", 32), src.bytes("server_random", 32)
        # decryptor as Session.generate_keys builds it
        s = sess_mod.Session.__new__(sess_mod.Session)
        s.tls_version = getattr(TlsVersion, version)
        s.extensions = {bytes.fromhex("0016"): b""} if cfg["etm"] else {}
        s.compression_method = 0
        s.client_random, s.server_random = cr, sr
        s.ipv6 = False
        s.server_ip = s.client_ip = b"\x0a\x00\x00\x01"
        s.server_port = s.client_port = 1
        s.can_decrypt = True
        if version == "TLS13":
            secs = {lab: src.bytes(lab.lower(), sp.mac_hash.digest_size) for lab in
                    ("CLIENT_HANDSHAKE_TRAFFIC_SECRET", "SERVER_HANDSHAKE_TRAFFIC_SECRET", "CLIENT_TRAFFIC_SECRET_0", "SERVER_TRAFFIC_SECRET_0")}
            keylog = [(lab, cr, v) for lab, v in secs.items()]
        else:
            ms = src.bytes("master_secret", 48)
            keylog = [("CLIENT_RANDOM", cr, ms)]
        s.keylog = P.keylog_objects(mods, keylog)
        s.generate_keys(s.tls_version, T.u16(cfg["suite"]), cr, sr)
        d = s.decryptor
        if d is None:
            c.fail("step-no-exception", "no decryptor was built")
            return {"outcome": "no decryptor"}
        from_server = bool(sym_choice("from_server", [False, True]))
        sd = conn.side(from_server)
        sd.encrypted = True
        # arbitrary state, the same on both ends
        seq = sym_int("seq", 0, (1 << 64) - 2)
        sd.seq = seq
        if version == "TLS13":
            epoch_app = bool(sym_choice("epoch_app", [False, True]))
            lab = ("SERVER" if from_server else "CLIENT") + ("_TRAFFIC_SECRET_0" if epoch_app else "_HANDSHAKE_TRAFFIC_SECRET")
            sd.key, sd.iv = T.tls13_traffic_keys(sp, secs[lab])
            if epoch_app:
                d.update_keys(from_server)
        else:
            conn.install_tls12_keys(ms, cr, sr)
            sd.encrypted = True
            sd.seq = seq
        if from_server:
            d.server_seq = seq
        else:
            d.client_seq = seq
        if sp.kind == "cbc" and version in ("SSL30", "TLS10"):
            res = sym_bytes("residue", sp.block_len)
            sd.residue = res
            if from_server:
                d.last_block_server = res
            else:
                d.last_block_client = res
        if sp.kind == "rc4":
            pos = sym_int("rc4_position", 0, (1 << 40))
            sd.rc4.position = pos
            (d.server_cipher if from_server else d.client_cipher).position = pos
        maxlen = ((2 * sp.block_len + 2) if cfg.get("tier") == "thorough" else sp.block_len + 1) if sp.kind == "cbc" else 3
        n = sym_choice("len", list(range(0, maxlen + 1)))
        pt = src.bytes("plaintext", n)
        ctype = 0x17
        pad = sym_choice("pad", [0, 1, 3]) if version == "TLS13" else 0
        xb = sym_choice("extra_pad_blocks", [0, 1]) if (sp.kind == "cbc" and version != "SSL30") else 0
        rec = conn.record(from_server, ctype, pt, pad=pad, extra_pad_blocks=xb)
        record = mods["tlexport.tlsrecord"].TlsRecord(as_symbytes(rec), [], from_server)
        try:
            got = d.decrypt(record, from_server)
        except Exception as e:
            c.fail("step-no-exception", "%s: %s" % (type(e).__name__, e))
            return {"outcome": "exception"}
        c.check(True, "step-no-exception")
        want = T.cat(pt, b"\x17", bytes(pad)) if version == "TLS13" else pt
        c.check(len(got) == len(want) and (as_symbytes(got) == want), "step-plaintext", "decrypted %d bytes, sent %d" % (len(got), len(want)))
        conds = []
        if sp.kind in ("aead", "chacha") or version == "TLS13":
            conds.append((d.server_seq if from_server else d.client_seq) == seq + 1)
            conds.append((d.client_seq if from_server else d.server_seq) == 0)
        if sp.kind == "cbc" and version in ("SSL30", "TLS10"):
            conds.append(as_symbytes(d.last_block_server if from_server else d.last_block_client) == sd.residue)
        if sp.kind == "rc4":
            conds.append((d.server_cipher if from_server else d.client_cipher).position == sd.rc4.position)
        c.check(sym_and(*conds) if conds else True, "step-state-advanced")
        return {"outcome": "ok", "validate": False}
    return explore_cfg(scenario, cfg, timeout_ms=60000, sample_paths=1)


def run_config(cfg):
    if cfg["harness"] == "step":
        return _run_step(cfg)
    from tlv.sx.core import ctx
    from tlv.harness import pipeline as P
    from tlv.harness.common import explore_cfg
    from tlv.oracle import scenario as SC
    mods = P.setup_symbolic()

    def scenario():
        c = ctx()
        src = SC.SymSrc()
        try:
            items, out, ep, sessions = scenario_outputs(cfg, mods, src)
        except Exception as e:
            import traceback
            c.fail("no-exception", "%s: %s @ %s" % (type(e).__name__, e, traceback.format_exc().splitlines()[-3:-1]))
            return {"outcome": "exception"}
        c.check(True, "no-exception")
        st = P.tcp_streams(out, ep)
        for d, label in ((False, "client-stream-equals-sent"), (True, "server-stream-equals-sent")):
            want = P.concat([it.app for it in items if it.app is not None and it.from_server == d])
            got = P.concat([x[0] for x in st[d]])
            c.check(len(want) == len(got) and (got == want), label,
                    "sent %d bytes, exported %d bytes in %d packets" % (len(want), len(got), len(st[d])))
        return {"outcome": "exported", "packets": len(out)}
    return explore_cfg(scenario, cfg, timeout_ms=60000, sample_paths=1)


def concrete(cfg, inp, args=()):
    """End-to-end on the real program."""
    from tlv import e2e
    from tlv.harness import pipeline as P
    from tlv.oracle import scenario as SC
    src = SC.ConcreteSrc(inp)
    items, keylog, meta = SC.build(cfg, src)
    ep = P.Endpoint(ipv=cfg.get("ipv", 4), isn_c=cfg.get("isn_c", 1000), isn_s=cfg.get("isn_s", 5000))
    pk = e2e.concrete_frames(ep, items, seg_size=cfg.get("seg_size"), group=P.stream_groups(items) if cfg.get("stream_segments") else None)
    res = e2e.run_tlexport(pk, e2e.keylog_text(keylog), args=args)
    problems = list(res["problems"])
    conv, convs = e2e.streams_of(res, ep)
    want = {d: b"".join(bytes(it.app) for it in items if it.app is not None and it.from_server == d) for d in (False, True)}
    got = {False: conv["c2s"] if conv else b"", True: conv["s2c"] if conv else b""}
    if conv:
        problems += conv["problems"]
    for d in (False, True):
        if got[d] != want[d]:
            problems.append("%s stream: exported %s, sent %s" % ("server" if d else "client", got[d].hex(), want[d].hex()))
    return {"ok": not problems, "problems": problems[:6], "stderr": res.get("stderr", "")[-400:] if problems else ""}


def _concrete_step(cfg, inp):
    """The same single-record step on the real Decryptor with the real cryptography."""
    import tlexport.session as sess_mod
    from tlexport.tlsversion import TlsVersion
    from tlexport.tlsrecord import TlsRecord
    from tlexport.keylog_reader import Key
    from tlv.oracle import scenario as SC, tls as T
    src = SC.ConcreteSrc(inp)
    version = cfg["version"]
    sp = T.SuiteParams(cfg["suite"], cfg["suite_name"])
    conn = T.Conn(version, sp, src, etm=cfg["etm"])
    cr, sr = src.bytes("client_random", 32), src.bytes("server_random", 32)
    s = sess_mod.Session.__new__(sess_mod.Session)
    s.tls_version = getattr(TlsVersion, version)
    s.extensions = {bytes.fromhex("0016"): b""} if cfg["etm"] else {}
    s.compression_method = 0
    s.client_random, s.server_random = cr, sr
    s.ipv6 = False
    s.server_ip = s.client_ip = b"\x0a\x00\x00\x01"
    s.server_port = s.client_port = 1
    s.can_decrypt = True
    if version == "TLS13":
        secs = {lab: src.bytes(lab.lower(), sp.mac_hash.digest_size) for lab in
                ("CLIENT_HANDSHAKE_TRAFFIC_SECRET", "SERVER_HANDSHAKE_TRAFFIC_SECRET", "CLIENT_TRAFFIC_SECRET_0", "SERVER_TRAFFIC_SECRET_0")}
        keylog = [(lab, cr, v) for lab, v in secs.items()]
    else:
        ms = src.bytes("master_secret", 48)
        keylog = [("CLIENT_RANDOM", cr, ms)]
    s.keylog = [Key("%s %s %s" % (l, a.hex(), b.hex())) for l, a, b in keylog]
    try:
        s.generate_keys(s.tls_version, T.u16(cfg["suite"]), cr, sr)
        d = s.decryptor
        from_server = [False, True][inp.get("from_server", 0)]
        sd = conn.side(from_server)
        seq = inp["seq"]
        if version == "TLS13":
            epoch_app = [False, True][inp.get("epoch_app", 0)]
            lab = ("SERVER" if from_server else "CLIENT") + ("_TRAFFIC_SECRET_0" if epoch_app else "_HANDSHAKE_TRAFFIC_SECRET")
            sd.key, sd.iv = T.tls13_traffic_keys(sp, secs[lab])
            if epoch_app:
                d.update_keys(from_server)
        else:
            conn.install_tls12_keys(ms, cr, sr)
        sd.encrypted = True
        sd.seq = seq
        if from_server:
            d.server_seq = seq
        else:
            d.client_seq = seq
        if sp.kind == "cbc" and version in ("SSL30", "TLS10"):
            res = src.bytes("residue", sp.block_len)
            sd.residue = res
            if from_server:
                d.last_block_server = res
            else:
                d.last_block_client = res
        if sp.kind == "rc4":
            # a real RC4 context cannot be put at an arbitrary position: advance both by the same (small) amount
            k = inp.get("rc4_position", 0) % 4096
            sd.rc4.update(bytes(k))
            (d.server_cipher if from_server else d.client_cipher).update(bytes(k))
        maxlen = ((2 * sp.block_len + 2) if cfg.get("tier") == "thorough" else sp.block_len + 1) if sp.kind == "cbc" else 3
        n = list(range(0, maxlen + 1))[inp.get("len", 0)]
        pt = src.bytes("plaintext", n)
        pad = [0, 1, 3][inp.get("pad", 0)] if version == "TLS13" else 0
        xb = [0, 1][inp.get("extra_pad_blocks", 0)] if (sp.kind == "cbc" and version != "SSL30") else 0
        rec = conn.record(from_server, 0x17, pt, pad=pad, extra_pad_blocks=xb)
        got = d.decrypt(TlsRecord(bytearray(rec), [], from_server), from_server)
    except Exception as e:
        return {"ok": False, "problems": ["exception %s: %s" % (type(e).__name__, e)]}
    want = pt + b"\x17" + bytes(pad) if version == "TLS13" else pt
    problems = []
    if bytes(got) != want:
        problems.append("decrypted %s, sent %s" % (bytes(got).hex(), want.hex()))
    if sp.kind in ("aead", "chacha") or version == "TLS13":
        if (d.server_seq if from_server else d.client_seq) != seq + 1:
            problems.append("sequence number not advanced by one")
    if sp.kind == "cbc" and version in ("SSL30", "TLS10"):
        if bytes(d.last_block_server if from_server else d.last_block_client) != bytes(sd.residue):
            problems.append("CBC residue is not the last ciphertext block")
    return {"ok": not problems, "problems": problems}


def replay(cfg, viol):
    if cfg["harness"] == "step":
        r = _concrete_step(cfg, viol["inputs"])
        return {"reproduced": not r["ok"], **r}
    r = concrete(cfg, viol["inputs"])
    return {"reproduced": not r["ok"], **r}


def validate(cfg, sample):
    if cfg["harness"] == "step":
        r = _concrete_step(cfg, sample["inputs"])
        return {"agree": r["ok"], **r}
    r = concrete(cfg, sample["inputs"])
    return {"agree": r["ok"], **r}
