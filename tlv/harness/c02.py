"""C02 - QUIC v1 STREAM data is exported exactly, datagram by datagram.

Reference QUIC endpoints (RFC 9000/9001, ideal AEAD, header-protection masks as uninterpreted functions) -> UDP frames -> real
Packet -> main.handle_quic_packet -> QuicSession (dissector, header protection removal, packet-number decoding, decryption, frame
parsing, TLS message parsing, key installation, key updates) -> QUICOutputbuilder.  The non-empty UDP payloads of the export must
equal, datagram by datagram, the STREAM data sent."""
import random

VALIDATE = True
SITES = ["no-exception", "datagrams-equal-stream-data"]
MODELS = ["cryptography ideal model (AEAD event table; AES-ECB / ChaCha20 header-protection masks and HKDF as uninterpreted functions)",
          "scapy recorder, dpkt spec parser", "key log: Key objects with symbolic hex fields"]
ASSUMPTIONS = ["QUIC v1 only; no version negotiation, no greased fixed bit", "datagrams have distinct capture timestamps",
               "distinct AEAD encryptions give distinct ciphertexts"]

FEATURES = {
    "basic": {},
    "uncoalesced": {"coalesce": False},
    "busy-frames": {"mix": "busy"},
    "two-streams": {"mix": "two-streams"},
    "stream-no-len": {"mix": "no-len"},
    "stream-offsets-descending": {"mix": "offsets-descending", "n_app": 3, "sym_dirs": False, "dirs": [1, 1, 0]},
    "pn-lengths": {"pn_len": {"c_app": "choice", "s_app": "choice"}, "pn_gap": 3},
    "crypto-split-ooo": {"crypto_split": [20, 50], "crypto_order": [2, 0, 1], "crypto_packets": "one"},
    "crypto-split-packets": {"crypto_split": [30], "crypto_order": [1, 0], "crypto_packets": "many"},
    "key-update": {"key_update_at": 1, "n_app": 3},
    "two-key-updates": {"key_update_at": [1, 2], "n_app": 3},
    "new-connection-id": {"ncid": True, "ncid_at": 1},
    "retry": {"retry": True},
    "retry-token-63": {"retry": True, "token_len": 63},
    "retry-token-64": {"retry": True, "token_len": 64},          # the token length needs a two-byte var-int
    "zero-rtt": {"zero_rtt": True},
    "zero-rtt-two-packets": {"zero_rtt": 2},
    "offered-other-first": {"offered_other_first": True},
    "keylog-reversed": {"keylog_order": "reversed"},
    "client-id-prefix-of-server-id": {"cid_alias": "client-prefix-of-server"},
}
CID_SHAPES = [(8, 4, 8), (8, 0, 8), (20, 20, 20), (8, 8, 0), (8, 0, 0)]


def configs(tier, seed):
    rnd = random.Random(seed)
    out = []
    feats = list(FEATURES)
    for suite in (0x1301, 0x1302, 0x1303, 0x1304):
        for fname in feats:
            shapes = CID_SHAPES if (tier == "thorough" or fname == "basic") else [CID_SHAPES[0]]
            if "cid_alias" in FEATURES[fname]:
                shapes = [CID_SHAPES[0]]
            for (od, cc, sc) in shapes:
                f = dict(FEATURES[fname])
                others = [s for s in (0x1301, 0x1302, 0x1303, 0x1304) if s != suite]
                offered = [suite] + others[:1]
                if f.pop("offered_other_first", False):
                    offered = [rnd.choice(others) if tier == "quick" else others[0], suite]
                cfg = {"harness": "quic", "name": "%04x-%s-cid%d.%d.%d" % (suite, fname, od, cc, sc), "suite": suite, "offered": offered,
                       "odcid_len": od, "c_cid_len": cc, "s_cid_len": sc, "ipv": rnd.choice([4, 6]), "n_app": 2, "data_len": 2, **f}
                out.append(cfg)
                if tier == "thorough" and fname == "offered-other-first":
                    for o in others[1:]:
                        c2 = dict(cfg)
                        c2["offered"] = [o, suite]
                        c2["name"] += "-first%04x" % o
                        out.append(c2)
    return out


def bounds(tier):
    return {"suites": "0x1301-0x1304", "features": sorted(FEATURES), "connection-id lengths (odcid, client, server)": CID_SHAPES if tier == "thorough" else "all five shapes for the basic flow, (8,4,8) otherwise",
            "1-RTT datagrams": "2-3 with solver-chosen direction, STREAM data 2 bytes (all symbolic)", "packet numbers": "concrete sequences with gaps; encoded length 1-4 solver-chosen in the pn-lengths feature (full range: C16)",
            "symbolic": "client/server random, all traffic secrets, connection ids, stream/datagram data, every ciphertext byte",
            "outside": "QUIC v2, version negotiation, greased fixed bit, more than 3 one-RTT datagrams, loss/reordering of QUIC packets"}


def expected(dgrams):
    return [(d.from_server, d.stream, d.ts) for d in dgrams if d.stream is not None and len(d.stream) > 0]


def assume_cids_prefix_free(c, meta, alias=None):
    """No non-empty connection id of the connection is a prefix of another one (random ids collide with negligible probability;
    adversarial aliasing is C04's subject).  Zero-length ids are left alone: they are a legitimate choice."""
    from tlv.sx.core import sym_not
    from tlv.sx.symbytes import as_symbytes
    ids = [as_symbytes(x) for x in meta["cids"] if len(x) > 0]
    if alias == "client-prefix-of-server":
        # the opposite, legitimate corner: the client's (shorter) id is the beginning of the server's id
        a, b = as_symbytes(meta["c_cid"]), as_symbytes(meta["s_cid"])
        assert 0 < len(a) < len(b)
        c.assume(a == b[:len(a)])
    for i in range(len(ids)):
        for j in range(len(ids)):
            if i != j and len(ids[i]) <= len(ids[j]) and (i < j or len(ids[i]) < len(ids[j])):
                if alias and {id(meta["cids"][i]), id(meta["cids"][j])} == {id(meta["c_cid"]), id(meta["s_cid"])}:
                    continue
                c.assume(sym_not(ids[i] == ids[j][:len(ids[i])]))


def assume_no_accidental_cid(c, meta, dgrams):
    """The pseudo-random bytes following the first byte of a short-header packet (protected packet number, ciphertext) do not
    happen to spell a longer connection id of the connection (probability 2^-8n for real ciphertext)."""
    from tlv.sx.core import sym_not
    from tlv.sx.symbytes import as_symbytes
    ids = [as_symbytes(x) for x in meta["cids"] if len(x) > 0]
    for d in dgrams:
        if not d.note.startswith("1-RTT"):
            continue
        data = as_symbytes(d.data)
        for x in ids:
            if len(x) > d.dcid_len and len(data) >= 1 + len(x):
                c.assume(sym_not(data[1:1 + len(x)] == x))


def run_config(cfg):
    from tlv.sx.core import ctx, sym_and
    from tlv.sx.symbytes import as_symbytes
    from tlv.harness import pipeline as P
    from tlv.harness.common import explore_cfg
    from tlv.oracle import scenario as SC, quic_scenario as QS
    mods = P.setup_symbolic()

    def scenario():
        c = ctx()
        src = SC.SymSrc()
        dgrams, keylog, meta = QS.build(cfg, src)
        assume_cids_prefix_free(c, meta, cfg.get("cid_alias"))
        assume_no_accidental_cid(c, meta, dgrams)
        ep = P.Endpoint(ipv=cfg.get("ipv", 4))
        frames = P.udp_frames(ep, dgrams)
        try:
            out, sessions = P.run_quic(mods, frames, P.keylog_objects(mods, keylog))
        except Exception as e:
            import traceback
            c.fail("no-exception", "%s: %s %s" % (type(e).__name__, e, traceback.format_exc().splitlines()[-3:-1]))
            return {"outcome": "exception"}
        c.check(True, "no-exception")
        got = [(d, load) for d, load, ts in P.udp_payloads(out, ep) if d is None or len(load) > 0]
        want = expected(dgrams)
        if len(got) != len(want) or any(g[0] != w[0] or len(g[1]) != len(w[1]) for g, w in zip(got, want)):
            c.fail("datagrams-equal-stream-data", "exported %s, sent %s" % ([(g[0], len(g[1])) for g in got], [(w[0], len(w[1])) for w in want]))
            return {"outcome": "shape mismatch"}
        c.check(sym_and(*[as_symbytes(g[1]) == w[1] for g, w in zip(got, want)]), "datagrams-equal-stream-data")
        return {"outcome": "%d datagrams" % len(got)}
    return explore_cfg(scenario, cfg, timeout_ms=60000, sample_paths=1)


def concrete(cfg, inp, args=()):
    from tlv import e2e
    from tlv.harness import pipeline as P
    from tlv.oracle import scenario as SC, quic_scenario as QS
    src = SC.ConcreteSrc(inp)
    dgrams, keylog, meta = QS.build(cfg, src)
    ep = P.Endpoint(ipv=cfg.get("ipv", 4))
    pk = e2e.concrete_udp_frames(ep, dgrams)
    res = e2e.run_tlexport(pk, e2e.keylog_text(keylog), args=args)
    problems = list(res["problems"])
    got = [(d, p) for d, p, t in e2e.udp_of(res, ep) if len(p) > 0]
    want = [(d, bytes(s)) for d, s, t in expected(dgrams)]
    if got != want:
        problems.append("exported %s, sent %s" % ([(d, p.hex()) for d, p in got], [(d, p.hex()) for d, p in want]))
    return {"ok": not problems, "problems": problems[:4], "stdout": res.get("stdout", "")[-300:] if problems else ""}


def replay(cfg, viol):
    r = concrete(cfg, viol["inputs"])
    return {"reproduced": not r["ok"], **r}


def validate(cfg, sample):
    r = concrete(cfg, sample["inputs"])
    return {"agree": r["ok"], **r}
