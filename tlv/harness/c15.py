"""C15 - derived traffic keys equal the RFC key schedules for all inputs.

tls  : handshake through main.handle_packet/Session up to key installation; every key, IV and MAC secret installed in the
       Decryptor is compared with the reference key schedule.  Hashes, HMAC and HKDF are uninterpreted functions, so equality is
       decided for every interpretation of the primitives (hence for the real ones) and every secret/random.
quic : see c02 (QuicSession keys), added to this check when the QUIC reference sender is available."""
import random

VALIDATE = True
SITES = ["no-exception", "decryptor-installed", "keys-equal-rfc"]
MODELS = ["cryptography ideal model (hash/HMAC/HKDF as uninterpreted functions)", "scapy recorder, dpkt spec parser"]
ASSUMPTIONS = ["TLS 1.1/1.2 CBC suites define no IV in the key block: whatever is installed there is unused and not compared",
               "without handshake secrets in the log TLExport deliberately installs the application keys as handshake keys: only the "
               "application keys are compared in that configuration",
               "the 'RSA' key-log line is read as <client_random> <pre-master secret> (TLExport's format)"]


def configs(tier, seed):
    from tlv.harness import c01
    from tlv.oracle import suites as S
    rnd = random.Random(seed)
    out = []
    seen = set()
    for code, name in c01.all_suites():
        p = S.parse_name(name)
        if p is None:
            continue
        for v in S.valid_versions(name):
            cls = (v, p["algorithm"], p["mode"], p["key_len"], p["hash"], p["tag_len"])
            if tier == "quick" and cls in seen:
                continue
            seen.add(cls)
            labels = ["CLIENT_RANDOM", "RSA"] if v != "TLS13" else ["hs+app", "app-only"]
            for lab in labels:
                cfg = {"harness": "tls", "name": "%s-%04x-%s" % (v, code, lab), "version": v, "suite": code, "suite_name": name,
                       "records": 0, "grouping": "separate", "ipv": 4}
                if v == "TLS13":
                    cfg["hs_secrets"] = lab == "hs+app"
                else:
                    cfg["keylog_label"] = lab
                out.append(cfg)
    # history: the connection under test is set up after another one with other parameters in the same process (stale state, caches)
    names = dict(c01.all_suites())
    for v, code, wcode in (("TLS13", 0x1302, 0x1301), ("TLS13", 0x1301, 0x1302), ("TLS13", 0x1303, 0x1301), ("TLS12", 0x009d, 0x009c), ("TLS12", 0x009c, 0x009d),
                           ("TLS12", 0x0035, 0x002f), ("TLS10", 0x002f, 0x000a), ("TLS12", 0x003c, 0x009d)):
        base = {"harness": "tls", "version": v, "records": 0, "grouping": "separate", "ipv": 4}
        if v == "TLS13":
            base["hs_secrets"] = True
        else:
            base["keylog_label"] = "CLIENT_RANDOM"
        out.append({**base, "name": "%s-%04x-after-%04x" % (v, code, wcode), "suite": code, "suite_name": names[code],
                    "warmup": {**base, "suite": wcode, "suite_name": names[wcode]}})
    for suite in (0x1301, 0x1302, 0x1303, 0x1304):
        shapes = [(8, 4, 8), (0, 0, 0), (20, 20, 20)] if tier == "quick" else [(n, n, n) for n in range(0, 21)]
        for od, cc, sc in shapes:
            for feat, extra in (("basic", {}), ("zero-rtt", {"zero_rtt": True}), ("updates", {"key_update_at": [0, 1, 2], "n_app": 3}), ("retry", {"retry": True})):
                if tier == "quick" and (od, cc, sc) != (8, 4, 8) and feat != "basic":
                    continue
                out.append({"harness": "quic", "name": "quic-%04x-%s-cid%d" % (suite, feat, od), "suite": suite, "offered": [suite], "odcid_len": max(od, 0),
                            "c_cid_len": cc, "s_cid_len": sc, "ipv": 4, "n_app": extra.get("n_app", 1), "data_len": 1, "sym_dirs": False,
                            "dirs": [0, 1, 0], **extra})
    return out


def bounds(tier):
    return {"suites": "every (cipher, MAC) behaviour class x version" + (" (all table entries)" if tier == "thorough" else " (one entry per class)"),
            "symbolic": "master / pre-master / traffic secrets, both randoms (all bytes)", "key-log labels": "CLIENT_RANDOM, RSA; TLS 1.3 with and without handshake secrets",
            "history": "8 pairs (connection under test set up after a connection with another key length / hash / cipher in the same process)",
            "QUIC": "4 suites x connection-id lengths {0, 8, 20} (thorough: 0..20) x initial/handshake/0-RTT/1-RTT/header-protection keys x 3 key-update generations x Retry", "outside": "QUIC v2"}


def _expected(cfg, meta, items_keylog):
    from tlv.oracle import tls as T
    sp, conn = meta["sp"], meta["conn"]
    v = cfg["version"]
    exp = {}
    if v == "TLS13":
        secs = {lab: sec for lab, _, sec in items_keylog}
        for side, pre in (("client", "CLIENT"), ("server", "SERVER")):
            k, iv = T.tls13_traffic_keys(sp, secs[pre + "_TRAFFIC_SECRET_0"])
            exp[side + "_application_key"], exp[side + "_application_iv"] = k, iv
            if cfg.get("hs_secrets", True):
                k, iv = T.tls13_traffic_keys(sp, secs[pre + "_HANDSHAKE_TRAFFIC_SECRET"])
                exp[side + "_handshake_key"], exp[side + "_handshake_iv"] = k, iv
        return exp
    k = conn.keys
    exp["client_key"], exp["server_key"] = k["client_key"], k["server_key"]
    if sp.mac_len:
        exp["client_mac"], exp["server_mac"] = k["client_mac"], k["server_mac"]
    if sp.fixed_iv_len(v):
        exp["client_iv"], exp["server_iv"] = k["client_iv"], k["server_iv"]
    return exp


def _quic_expected(meta, cfg):
    C, S = meta["C"], meta["S"]
    exp = {}
    for side, nm in ((C, "client"), (S, "server")):
        for lvl, tl in (("initial", "initial"), ("handshake", "handshake")):
            for part in ("key", "iv", "hp"):
                exp["%s_%s_%s" % (nm, tl, part)] = side.keys[lvl][part]
        g0 = side.gens[0]
        exp["%s_application_key" % nm], exp["%s_application_iv" % nm], exp["%s_application_hp" % nm] = g0["key"], g0["iv"], g0["hp"]
        exp["%s_application_sec" % nm] = g0["secret"]
    if cfg.get("zero_rtt"):
        for part in ("key", "iv", "hp"):
            exp["client_early_" + part] = C.keys["early"][part]
    gens = [(s_["key"], s_["iv"], c_["key"], c_["iv"], s_["secret"], c_["secret"]) for s_, c_ in zip(S.gens, C.gens)]
    return exp, gens


def _run_quic(cfg):
    from tlv.sx.core import ctx, sym_and
    from tlv.sx.symbytes import as_symbytes
    from tlv.harness import pipeline as P, c02
    from tlv.harness.common import explore_cfg
    from tlv.oracle import scenario as SC, quic_scenario as QS
    mods = P.setup_symbolic()

    def scenario():
        c = ctx()
        src = SC.SymSrc()
        dgrams, keylog, meta = QS.build(cfg, src)
        c02.assume_cids_prefix_free(c, meta)
        c02.assume_no_accidental_cid(c, meta, dgrams)
        ep = P.Endpoint(ipv=4)
        try:
            out, sessions = P.run_quic(mods, P.udp_frames(ep, dgrams), P.keylog_objects(mods, keylog))
        except Exception as e:
            c.fail("no-exception", "%s: %s" % (type(e).__name__, e))
            return {"outcome": "exception"}
        c.check(True, "no-exception")
        if not c.check(len(sessions) == 1 and "Application" in sessions[0].decryptors, "decryptor-installed"):
            return {"outcome": "no decryptor"}
        s = sessions[0]
        exp, gens = _quic_expected(meta, cfg)
        conds, bad = [], []
        for name, want in exp.items():
            got = s.keys.get(name)
            if got is None or len(got) != len(want):
                conds.append(False)
                bad.append("%s: installed %r, RFC length %d" % (name, None if got is None else len(got), len(want)))
            else:
                conds.append(as_symbytes(got) == want)
        app = s.decryptors["Application"]
        if len(app) < len(gens):
            conds.append(False)
            bad.append("%d key generations installed, %d used by the endpoints" % (len(app), len(gens)))
        else:
            for g, d in zip(gens, app):
                for want, got in zip(g, (d.server_key, d.server_iv, d.client_key, d.client_iv, d.keys[4], d.keys[5])):
                    conds.append(len(got) == len(want) and (as_symbytes(got) == want))
        c.check(sym_and(*conds), "keys-equal-rfc", "; ".join(bad) or "values differ")
        return {"outcome": "compared %d keys, %d generations" % (len(exp), len(gens))}
    return explore_cfg(scenario, cfg, timeout_ms=60000, sample_paths=1)


def run_config(cfg):
    if cfg["harness"] == "quic":
        return _run_quic(cfg)
    from tlv.sx.core import ctx, sym_and
    from tlv.sx.symbytes import as_symbytes
    from tlv.harness import pipeline as P
    from tlv.harness.common import explore_cfg
    from tlv.oracle import scenario as SC
    mods = P.setup_symbolic()

    def scenario():
        c = ctx()
        try:
            if cfg.get("warmup"):
                witems, wkeylog, _ = SC.build(cfg["warmup"], SC.SymSrc("w."))
                P.run_tls(mods, P.tcp_frames(P.Endpoint(ipv=4, c_port=50001), witems), P.keylog_objects(mods, wkeylog))
        except Exception as e:
            c.fail("no-exception", "warm-up connection: %s: %s" % (type(e).__name__, e))
            return {"outcome": "exception"}
        src = SC.SymSrc()
        items, keylog, meta = SC.build(cfg, src)
        ep = P.Endpoint(ipv=4)
        frames = P.tcp_frames(ep, items)
        try:
            out, sessions = P.run_tls(mods, frames, P.keylog_objects(mods, keylog))
        except Exception as e:
            c.fail("no-exception", "%s: %s" % (type(e).__name__, e))
            return {"outcome": "exception"}
        c.check(True, "no-exception")
        d = sessions[0].decryptor if sessions else None
        if not c.check(d is not None, "decryptor-installed"):
            return {"outcome": "no decryptor"}
        full_keylog = keylog
        if cfg["version"] == "TLS13" and not cfg.get("hs_secrets", True):
            pass
        exp = _expected(cfg, meta, _all_secrets(cfg, src, meta, keylog))
        bad = []
        conds = []
        for name, want in exp.items():
            got = getattr(d, name, None)
            if got is None or len(got) != len(want):
                bad.append("%s: installed %r, RFC length %d" % (name, None if got is None else len(got), len(want)))
                conds.append(False)
            else:
                conds.append(as_symbytes(got) == want)
        c.check(sym_and(*conds), "keys-equal-rfc", "; ".join(bad) or "values differ: " + ",".join(exp))
        return {"outcome": "compared %d keys" % len(exp)}
    return explore_cfg(scenario, cfg, timeout_ms=60000, sample_paths=1)


def _all_secrets(cfg, src, meta, keylog):
    return keylog


def _concrete_quic(cfg, inp):
    import tlexport.main as main
    from tlexport.packet import Packet
    from tlexport.keylog_reader import Key
    from tlv import e2e
    from tlv.harness import pipeline as P
    from tlv.oracle import scenario as SC, quic_scenario as QS
    dgrams, keylog, meta = QS.build(cfg, SC.ConcreteSrc(inp))
    ep = P.Endpoint(ipv=4)
    kl = [Key("%s %s %s" % (l, bytes(a).hex(), bytes(b).hex())) for l, a, b in keylog]
    main.server_ports[:] = [443, 44330]
    sessions = []
    try:
        for frame, ts in e2e.concrete_udp_frames(ep, dgrams):
            p = Packet(frame, ts / 1e6)
            if p.udp_packet and len(p.tls_data):
                main.handle_quic_packet(p, kl, sessions, {}, True)
    except Exception as e:
        return {"ok": False, "problems": ["exception %s: %s" % (type(e).__name__, e)]}
    if len(sessions) != 1 or "Application" not in sessions[0].decryptors:
        return {"ok": False, "problems": ["no application decryptor installed"]}
    s = sessions[0]
    exp, gens = _quic_expected(meta, cfg)
    problems = []
    for name, want in exp.items():
        got = s.keys.get(name)
        if got is None or bytes(got) != bytes(want):
            problems.append("%s: installed %s, RFC %s" % (name, None if got is None else bytes(got).hex(), bytes(want).hex()))
    app = s.decryptors["Application"]
    if len(app) < len(gens):
        problems.append("%d key generations installed, %d used" % (len(app), len(gens)))
    else:
        for i, (g, d) in enumerate(zip(gens, app)):
            if tuple(bytes(x) for x in g) != tuple(bytes(x) for x in (d.server_key, d.server_iv, d.client_key, d.client_iv, d.keys[4], d.keys[5])):
                problems.append("generation %d differs" % i)
    return {"ok": not problems, "problems": problems[:4]}


def _concrete(cfg, inp):
    """Real Session + real cryptography: the installed keys must equal the reference schedule computed with real hashes."""
    if cfg["harness"] == "quic":
        return _concrete_quic(cfg, inp)
    import tlexport.main as main
    from tlexport.packet import Packet
    from tlexport.keylog_reader import Key
    from tlv import e2e
    from tlv.harness import pipeline as P
    from tlv.oracle import scenario as SC
    src = SC.ConcreteSrc(inp)
    main.server_ports[:] = [443, 44330]
    if cfg.get("warmup"):
        try:
            witems, wkeylog, _ = SC.build(cfg["warmup"], SC.ConcreteSrc(inp, prefix="w."))
            wkl = [Key("%s %s %s" % (l, bytes(a).hex(), bytes(b).hex())) for l, a, b in wkeylog]
            ws = []
            for frame, ts in e2e.concrete_frames(P.Endpoint(ipv=4, c_port=50001), witems):
                p = Packet(frame, ts / 1e6)
                if p.tcp_packet and len(p.tls_data):
                    main.handle_packet(p, None, wkl, ws, {}, True, exp_meta=False)
            for s in ws:
                s.decrypt()
        except Exception as e:
            return {"ok": False, "problems": ["warm-up connection: exception %s: %s" % (type(e).__name__, e)]}
    items, keylog, meta = SC.build(cfg, src)
    ep = P.Endpoint(ipv=4)
    sessions = []
    kl = [Key("%s %s %s" % (l, bytes(a).hex(), bytes(b).hex())) for l, a, b in keylog]
    try:
        for frame, ts in e2e.concrete_frames(ep, items):
            p = Packet(frame, ts / 1e6)
            if p.tcp_packet and len(p.tls_data):
                main.handle_packet(p, None, kl, sessions, {}, True, exp_meta=False)
        for s in sessions:
            s.decrypt()
    except Exception as e:
        return {"ok": False, "problems": ["exception %s: %s" % (type(e).__name__, e)]}
    d = sessions[0].decryptor if sessions else None
    if d is None:
        return {"ok": False, "problems": ["no decryptor installed"]}
    exp = _expected(cfg, meta, keylog)
    problems = []
    for name, want in exp.items():
        got = getattr(d, name, None)
        if got is None or bytes(got) != bytes(want):
            problems.append("%s: installed %s, RFC %s" % (name, None if got is None else bytes(got).hex(), bytes(want).hex()))
    return {"ok": not problems, "problems": problems[:4]}


def replay(cfg, viol):
    r = _concrete(cfg, viol["inputs"])
    return {"reproduced": not r["ok"], **r}


def validate(cfg, sample):
    r = _concrete(cfg, sample["inputs"])
    return {"agree": r["ok"], **r}
