"""C04 - concurrent connections are demultiplexed; each is exported as if it were alone.

Two connections (TLS+TLS, QUIC+QUIC, TLS+QUIC) with symbolic endpoints - constrained only to differ as 4-tuples - are merged by a
solver-chosen order-preserving interleaving and decrypted with the union of their key logs in either order.
routing  : every session object holds exactly the packets of one connection, in order.
isolation: every connection's export equals its export when it is alone in the capture."""

VALIDATE = False
SITES = ["no-exception", "routing", "isolation"]
MODELS = ["as C01/C02; endpoint aliasing pattern solver-chosen, connection ids symbolic"]
ASSUMPTIONS = ["client ports are not watched server ports", "the two connections differ in at least one of (client ip, client port, server ip, server port)",
               "non-empty QUIC connection ids of different connections are not prefixes of one another and are not spelled by ciphertext; zero-length ids are allowed",
               "client randoms of different connections differ"]


ALIAS = {
    "same-hosts-other-client-port": {"client_ip": 0, "server_ip": 0, "client_port": 1},
    "same-client-other-server": {"client_ip": 0, "server_ip": 1, "client_port": 0},
    "client-is-first-server-host": {"client_ip": 2, "server_ip": 1, "client_port": 0},
    "all-different": {"client_ip": 1, "server_ip": 1, "client_port": 1},
    "servers-swapped-roles": {"client_ip": 2, "server_ip": 2, "client_port": 1},
    "servers-swapped-roles-same-ports": {"client_ip": 2, "server_ip": 2, "client_port": 0},
}


def _quic_app(cfg, tag="b."):
    """1-RTT datagrams of a QUIC connection: server data only, or client data followed by server data.  The first connection's server
    data packet has packet number 200 (packets not in the capture before it): its state is far from a fresh connection's."""
    if cfg.get("client_data"):
        return {"n_app": 2, "data_len": 1, "sym_dirs": False, "dirs": [0, 1]}
    if tag.startswith("a"):
        return {"n_app": 1, "data_len": 1, "sym_dirs": False, "dirs": [1], "pn_gap": 200}
    return {"n_app": 1, "data_len": 1, "sym_dirs": False, "dirs": [1]}


def configs(tier, seed):
    out = []
    aliases = list(ALIAS) if tier == "thorough" else list(ALIAS)[:3]
    for pair in ("tls+tls", "quic+quic", "tls+quic"):
        for ipv in ((4, 6) if tier == "thorough" else (4,)):
            if ipv == 6 and pair != "tls+tls":
                continue           # the address family only enters through Packet (C07); one transport pair with IPv6 is enough
            if pair == "tls+tls":
                shapes = [None]
            elif tier == "quick":
                shapes = [(4, 8), (0, 8)] if pair == "quic+quic" else [(0, 8)]
            else:
                shapes = [(4, 8), (0, 8), (8, 0), (0, 0), (20, 20)]
            for sh in shapes:
                als = aliases
                if tier == "quick" and pair == "tls+tls":
                    als = list(ALIAS)          # all aliasing patterns (cheap for TLS): incl. the two hosts with swapped roles
                if tier == "quick" and pair == "quic+quic":
                    als = aliases[:2] if sh == (0, 8) else aliases[:1]
                if tier == "quick" and pair == "tls+quic":
                    als = aliases[2:3]
                for al in als:
                    cd = pair == "quic+quic" and ((tier == "thorough" and sh == (0, 8) and al in aliases[:2]) or (tier == "quick" and sh == (0, 8) and al == als[-1]))
                    npre = 2 if pair == "tls+tls" else (4 if cd else 3)      # the first merge decisions are fixed per configuration (parallelism)
                    for pre in range(1 << npre):
                        nm = "%s-v%d%s-%s-part%d" % (pair, ipv, "" if sh is None else "-cid%d.%d" % sh, al, pre)
                        out.append({"harness": "pair", "name": nm + ("-client-data" if cd else ""), "pair": pair, "ipv": ipv, "cids": sh, "prefix": pre,
                                    "nprefix": npre, "alias": al, "client_data": cd})
    return out


def bounds(tier):
    return {"connections": 2, "tls": "abbreviated TLS 1.2 handshake + 1 application record per connection, several records per segment (4-5 segments each)",
            "quic": "handshake + 1 one-RTT datagram from the server per connection (6 datagrams each), in the -client-data configurations a client datagram before it; connection-id lengths (client, server) in {(4,8),(0,8),(0,0)}",
            "interleavings": "all order-preserving merges (solver-chosen)", "key log": "the two connections' entries in either order or alternating line by line",
            "endpoints": "every aliasing pattern: second connection's client ip / server ip / client port equal to or different from the first one's (incl. its client being the first one's server host), server ports from {443, 44330}"}


def _sym_ep(tag, ipv, alias=None):
    """Endpoint of the second connection: components shared with / different from the first one's per the aliasing pattern."""
    from tlv.sx.core import sym_choice
    from tlv.harness import pipeline as P
    n = 16 if ipv == 6 else 4
    base = {"c_ip": bytes([10] * (n - 1) + [1]), "s_ip": bytes([10] * (n - 1) + [2]), "c_port": 50000}
    if tag.startswith("a"):
        return P.Endpoint(ipv=ipv, c_port=base["c_port"], s_port=sym_choice(tag + "server_port", [443, 44330]), c_ip=base["c_ip"], s_ip=base["s_ip"])
    al = ALIAS[alias]
    c_ip = [base["c_ip"], bytes([10] * (n - 1) + [3]), base["s_ip"]][al["client_ip"]]
    s_ip = [base["s_ip"], bytes([10] * (n - 1) + [4]), base["c_ip"]][al["server_ip"]]
    cp = [base["c_port"], 50001][al["client_port"]]
    return P.Endpoint(ipv=ipv, c_port=cp, s_port=sym_choice(tag + "server_port", [443, 44330]), c_ip=c_ip, s_ip=s_ip)


def _conn(kind, tag, cfg, src):
    """-> (frames [(frame, ts, from_server)], keylog, meta)"""
    from tlv.harness import pipeline as P
    from tlv.oracle import scenario as SC, quic_scenario as QS, frames as F
    from tlv.harness.c07 import _sym_port_bytes
    ep = _sym_ep(tag, cfg["ipv"], cfg.get("alias"))
    if kind == "tls":
        scfg = {"version": "TLS12", "suite": 0x009c, "suite_name": "TLS_RSA_WITH_AES_128_GCM_SHA256", "records": 1, "max_len": 1, "min_len": 1,
                "abbreviated": True, "sym_dirs": False, "dirs": [1]}
        items, keylog, meta = SC.build(scfg, src)
        # group consecutive records of one direction into one segment
        groups = []
        for i, it in enumerate(items):
            if groups and items[groups[-1][0]].from_server == it.from_server:
                groups[-1].append(i)
            else:
                groups.append([i])
        frames = []
        seq = {False: 100, True: 900}
        for g in groups:
            fs = items[g[0]].from_server
            data = items[g[0]].data
            for i in g[1:]:
                data = data + items[i].data
            s_ = (ep.s_ip, ep.s_port, ep.s_mac) if fs else (ep.c_ip, ep.c_port, ep.c_mac)
            d_ = (ep.c_ip, ep.c_port, ep.c_mac) if fs else (ep.s_ip, ep.s_port, ep.s_mac)
            sg = F.tcp_segment(_sym_port_bytes(s_[1]), _sym_port_bytes(d_[1]), F.u32(seq[fs]), F.u32(0), 0x18, data)
            seq[fs] += len(data)
            frames.append((F.ethernet(d_[2], s_[2], ep.ipv == 6, F.ip_header(ep.ipv == 6, s_[0], d_[0], 6, len(sg)) + sg), 0, fs))
        return frames, keylog, meta, ep, "tcp"
    cc, sc = cfg["cids"] or (4, 8)
    qcfg = {"suite": 0x1301, "offered": [0x1301], "odcid_len": 8, "c_cid_len": cc, "s_cid_len": sc, **_quic_app(cfg, tag)}
    dgrams, keylog, meta = QS.build(qcfg, src)
    frames = []
    for d in dgrams:
        s_ = (ep.s_ip, ep.s_port, ep.s_mac) if d.from_server else (ep.c_ip, ep.c_port, ep.c_mac)
        d_ = (ep.c_ip, ep.c_port, ep.c_mac) if d.from_server else (ep.s_ip, ep.s_port, ep.s_mac)
        sg = F.udp_segment(_sym_port_bytes(s_[1]), _sym_port_bytes(d_[1]), d.data)
        frames.append((F.ethernet(d_[2], s_[2], ep.ipv == 6, F.ip_header(ep.ipv == 6, s_[0], d_[0], 17, len(sg)) + sg), 0, d.from_server))
    meta["dgrams"] = dgrams
    return frames, keylog, meta, ep, "udp"


def _keylog_order(order, ka, kb):
    """The two connections' key-log lines: one after the other, or line by line alternately (concurrent handshakes)"""
    if order == "ab":
        return ka + kb
    if order == "ba":
        return kb + ka
    out = []
    for i in range(max(len(ka), len(kb))):
        out += ka[i:i + 1] + kb[i:i + 1]
    return out


def _feed(mods, tagged, keylog_objs):
    """tagged: list of (owner, frame, ts).  -> (tls sessions, quic sessions)"""
    main = mods["tlexport.main"]
    Packet = mods["tlexport.packet"].Packet
    main.server_ports[:] = [443, 44330, 443]
    sessions, qsessions = [], []
    for owner, frame, ts in tagged:
        p = Packet(frame, ts)
        p.owner = owner
        if p.tcp_packet and len(p.tls_data) != 0:
            main.handle_packet(p, None, keylog_objs, sessions, {}, True, exp_meta=False)
        elif p.udp_packet and len(p.tls_data) != 0:
            main.handle_quic_packet(p, keylog_objs, qsessions, {}, True)
    return sessions, qsessions


def _export(sessions, qsessions):
    """owner -> list of (layer names, payload elements, ts, sport, dport)"""
    from tlv.sx.symbytes import as_symbytes
    res = {}
    for s in sessions:
        owner = s.start_packet.owner
        out = s.decrypt()
        res.setdefault(owner, []).extend(_summ(out))
    for s in qsessions:
        owner = getattr(s, "_owner", None)
        out = s.build_output(False)
        res.setdefault(owner, []).extend(_summ(out))
    return res


def _summ(out):
    from tlv.sx.symbytes import as_symbytes
    r = []
    for fr, ts in out:
        l4 = fr.layer("TCP") or fr.layer("UDP")
        raw = fr.layer("Raw")
        r.append((fr.names(), tuple(as_symbytes(raw.load).e) if raw is not None else (), ts, l4.sport, l4.dport, str(getattr(l4, "flags", ""))))
    return r


def run_config(cfg):
    from tlv.sx.core import ctx, sym_choice, sym_not, sym_and, sym_or
    from tlv.sx.symbytes import as_symbytes
    from tlv.harness import pipeline as P, c02
    from tlv.harness.common import explore_cfg
    from tlv.oracle import scenario as SC
    from cryptography._model import same_terms
    mods = P.setup_symbolic()
    QS = mods["tlexport.quic.quic_session"].QuicSession
    kinds = cfg["pair"].split("+")

    def scenario():
        c = ctx()
        conns = []
        for i, kind in enumerate(kinds):
            frames, keylog, meta, ep, l4 = _conn(kind, "abcd"[i] + ".", cfg, SC.SymSrc("abcd"[i] + "."))
            conns.append({"frames": frames, "keylog": keylog, "meta": meta, "ep": ep, "l4": l4, "kind": kind})
        A, B = conns
        # the connections differ as 4-tuples (when both are of the same transport)
        if A["l4"] == B["l4"]:
            ea, eb = A["ep"], B["ep"]
            c.assume(not (ea.c_ip == eb.c_ip and ea.s_ip == eb.s_ip and ea.c_port == eb.c_port and ea.s_port == eb.s_port))
        c.assume(sym_not(as_symbytes(A["meta"]["cr"]) == B["meta"]["cr"]))
        allc = []
        for x in conns:
            if x["kind"] == "quic":
                c02.assume_cids_prefix_free(c, x["meta"])
                c02.assume_no_accidental_cid(c, x["meta"], x["meta"]["dgrams"])
                allc.append(x)
        if len(allc) == 2:
            ids_a = [as_symbytes(z) for z in allc[0]["meta"]["cids"] if len(z) > 0]
            ids_b = [as_symbytes(z) for z in allc[1]["meta"]["cids"] if len(z) > 0]
            for p in ids_a:
                for q in ids_b:
                    s_, l_ = (p, q) if len(p) <= len(q) else (q, p)
                    c.assume(sym_not(s_ == l_[:len(s_)]))
            for x, other in ((allc[0], ids_b), (allc[1], ids_a)):
                for d in x["meta"]["dgrams"]:
                    data = as_symbytes(d.data)
                    for z in other:
                        if d.note.startswith("1-RTT") and len(data) >= 1 + len(z):
                            c.assume(sym_not(data[1:1 + len(z)] == z))
        # solver-chosen order-preserving merge
        ia = ib = 0
        merged = []
        step = 0
        while ia < len(A["frames"]) or ib < len(B["frames"]):
            if ia >= len(A["frames"]):
                take_a = False
            elif ib >= len(B["frames"]):
                take_a = True
            elif step < cfg["nprefix"]:
                take_a = not ((cfg["prefix"] >> step) & 1)
            else:
                take_a = sym_choice("merge%d" % step, [True, False])
            step += 1
            if take_a:
                merged.append(("A", A["frames"][ia][0], float(step)))
                ia += 1
            else:
                merged.append(("B", B["frames"][ib][0], float(step)))
                ib += 1
        kl_order = sym_choice("keylog_order", ["ab", "ba", "interleaved"])
        kl = _keylog_order(kl_order, A["keylog"], B["keylog"])
        try:
            both, sessions = _export_tagged(mods, merged, P.keylog_objects(mods, kl), want_sessions=True)
            # routing
            owners = []
            ok_route = True
            for s in sessions:
                os_ = {p.owner for p in s.packet_buffer}
                ok_route = ok_route and len(os_) == 1
                owners.append(("tcp", next(iter(os_)) if os_ else None))
            # the solo exports do not depend on the interleaving: computed once per choice of server ports (times are compared separately)
            solo = {}
            for tag, x in (("A", A), ("B", B)):
                key = (cfg["name"], tag, x["ep"].s_port)
                if key not in _SOLO:
                    own_t = [(tag, fr[0], 1000.0 + k) for k, fr in enumerate(x["frames"])]
                    _SOLO[key] = _export_tagged(mods, own_t, P.keylog_objects(mods, x["keylog"])).get(tag, [])
                solo[tag] = _SOLO[key]
        except Exception as e:
            import traceback
            c.fail("no-exception", "%s: %s %s" % (type(e).__name__, e, traceback.format_exc().splitlines()[-3:-1]))
            return {"outcome": "exception"}
        c.check(True, "no-exception")
        c.check(ok_route and len(sessions) == sum(1 for x in conns if x["l4"] == "tcp"), "routing",
                "%d TLS sessions for %d TLS connections; owners per session %r" % (len(sessions), sum(1 for x in conns if x["l4"] == "tcp"), owners))
        conds = []
        bad = []
        own_times = {t: {ts for o, fr, ts in merged if o == t} for t in ("A", "B")}
        for tag in ("A", "B"):
            a, b = both.get(tag, []), solo[tag]
            if len(a) != len(b) or any(x[0] != y[0] or x[5] != y[5] or not same_terms(list(x[1]), list(y[1])) for x, y in zip(a, b)):
                bad.append("%s: %d packets in the mixed capture, %d alone" % (tag, len(a), len(b)))
                continue
            for x, y in zip(a, b):
                conds += [x[3] == y[3], x[4] == y[4]]
                if x[2] not in own_times[tag]:
                    bad.append("%s: exported time %r is not a time of this connection's packets" % (tag, x[2]))
        foreign = [k for k in both if k not in ("A", "B")]
        if any(len(solo[t]) < 2 for t in solo):
            bad.append("solo exports are nearly empty: %r" % {t: len(solo[t]) for t in solo})
        c.check(not bad and not foreign, "isolation", "; ".join(bad) or "unattributed output %r" % foreign)
        c.check(sym_and(*conds), "isolation", "ports differ between the mixed and the solo export")
        return {"outcome": "isolated", "validate": False}
    return explore_cfg(scenario, cfg, timeout_ms=60000, sample_paths=1, max_paths=50000)


_SOLO = {}


def _export_tagged(mods, tagged, keylog_objs, want_sessions=False):
    """Runs the capture and attributes every exported packet to the connection whose packets fed the session."""
    main = mods["tlexport.main"]
    Packet = mods["tlexport.packet"].Packet
    main.server_ports[:] = [443, 44330, 443]
    sessions, qsessions = [], []
    q_owner = {}
    for owner, frame, ts in tagged:
        p = Packet(frame, ts)
        p.owner = owner
        if p.tcp_packet and len(p.tls_data) != 0:
            main.handle_packet(p, None, keylog_objs, sessions, {}, True, exp_meta=False)
        elif p.udp_packet and len(p.tls_data) != 0:
            before = len(qsessions)
            main.handle_quic_packet(p, keylog_objs, qsessions, {}, True)
            for s in qsessions[before:]:
                q_owner[id(s)] = owner
    res = {}
    for s in sessions:
        res.setdefault(s.start_packet.owner, []).extend(_summ(s.decrypt()))
    for s in qsessions:
        res.setdefault(q_owner.get(id(s)), []).extend(_summ(s.build_output(False)))
    if want_sessions:
        return res, sessions
    return res


def replay(cfg, viol):
    """Real program: both connections concretised, merged in the counterexample's order; per-connection export vs solo export."""
    from tlv import e2e
    from tlv.harness import pipeline as P
    from tlv.oracle import scenario as SC, quic_scenario as QS, frames as F
    inp = viol["inputs"]
    kinds = cfg["pair"].split("+")
    conns = []
    for i, kind in enumerate(kinds):
        tag = "abcd"[i] + "."
        src = SC.ConcreteSrc(inp, prefix=tag)
        n = 16 if cfg["ipv"] == 6 else 4
        base = {"c_ip": bytes([10] * (n - 1) + [1]), "s_ip": bytes([10] * (n - 1) + [2]), "c_port": 50000}
        if i == 0:
            ep = P.Endpoint(ipv=cfg["ipv"], c_port=50000, s_port=[443, 44330][inp.get(tag + "server_port", 0)], c_ip=base["c_ip"], s_ip=base["s_ip"])
        else:
            al = ALIAS[cfg["alias"]]
            ep = P.Endpoint(ipv=cfg["ipv"], c_port=[50000, 50001][al["client_port"]], s_port=[443, 44330][inp.get(tag + "server_port", 0)],
                            c_ip=[base["c_ip"], bytes([10] * (n - 1) + [3]), base["s_ip"]][al["client_ip"]],
                            s_ip=[base["s_ip"], bytes([10] * (n - 1) + [4]), base["c_ip"]][al["server_ip"]])
        if kind == "tls":
            scfg = {"version": "TLS12", "suite": 0x009c, "suite_name": "TLS_RSA_WITH_AES_128_GCM_SHA256", "records": 1, "max_len": 1, "min_len": 1,
                    "abbreviated": True, "sym_dirs": False, "dirs": [1]}
            items, keylog, meta = SC.build(scfg, src)
            groups = []
            for k, it in enumerate(items):
                if groups and items[groups[-1][0]].from_server == it.from_server:
                    groups[-1].append(k)
                else:
                    groups.append([k])
            ep.seq = {False: 100, True: 900}
            pk = [fr for fr, t in e2e.concrete_frames(ep, items, group=groups)]
        else:
            cc, sc = cfg["cids"] or (4, 8)
            qcfg = {"suite": 0x1301, "offered": [0x1301], "odcid_len": 8, "c_cid_len": cc, "s_cid_len": sc, **_quic_app(cfg, tag)}
            dgrams, keylog, meta = QS.build(qcfg, src)
            pk = [fr for fr, t in e2e.concrete_udp_frames(ep, dgrams)]
        conns.append({"pk": pk, "keylog": keylog, "ep": ep, "kind": kind})
    A, B = conns
    ia = ib = 0
    merged, step = [], 0
    while ia < len(A["pk"]) or ib < len(B["pk"]):
        if ia >= len(A["pk"]):
            take_a = False
        elif ib >= len(B["pk"]):
            take_a = True
        elif step < cfg["nprefix"]:
            take_a = not ((cfg["prefix"] >> step) & 1)
        else:
            take_a = [True, False][inp.get("merge%d" % step, 0)]
        step += 1
        if take_a:
            merged.append(("A", A["pk"][ia], step * 1000000))
            ia += 1
        else:
            merged.append(("B", B["pk"][ib], step * 1000000))
            ib += 1
    kl = _keylog_order(["ab", "ba", "interleaved"][inp.get("keylog_order", 0)], A["keylog"], B["keylog"])

    def export(pkts, keylog):
        r = e2e.run_tlexport([(fr, t) for _, fr, t in pkts], e2e.keylog_text(keylog))
        return r, [(d["src"], d["sport"], d["dst"], d["dport"], d.get("l4"), d["payload"], d["ts"][0]) for d in r["frames"]]
    r, both = export(merged, kl)
    problems = list(r["problems"])

    def mine(rows, ep):
        ends = {(ep.c_ip, ep.c_port), (ep.s_ip, ep.s_port)}
        return [x for x in rows if {(x[0], x[1]), (x[2], x[3])} == ends]
    total = 0
    for tag, x in (("A", A), ("B", B)):
        rs, solo = export([m for m in merged if m[0] == tag], x["keylog"])
        problems += rs["problems"]
        got = mine(both, x["ep"])
        want = mine(solo, x["ep"])
        total += len(want)
        if got != want:
            problems.append("connection %s: %d packets in the mixed capture, %d alone (or contents differ)" % (tag, len(got), len(want)))
    if len(both) != total and not problems:
        problems.append("%d packets in the mixed export, %d in the two solo exports" % (len(both), total))
    return {"reproduced": bool(problems), "problems": problems[:4]}


def validate(cfg, sample):
    return {"agree": True}
