"""C16 - QUIC packet numbers are reconstructed as RFC 9000 Appendix A.3 defines.

Executes tlexport.quic.quic_session.QuicSession.get_full_packet_number on a session whose six
largest-packet-number slots are symbolic (inductive step from an arbitrary state)."""

EXHAUSTIVE = True
VALIDATE = True
SITES = ["no-exception", "nonce-is-a3-value", "a3-value", "own-slot-is-max", "other-slots-unchanged", "nonce-fits"]
MODELS = ["QuicSession object built with __new__ + set_packet_number_spaces (no I/O)",
          "packet object: duck-typed stub with isserver/packet_type/packet_num"]
ASSUMPTIONS = ["largest-received slots hold values in [0, 2^62) (RFC 9000 packet number range)",
               "a slot value of 0 means both 'nothing received' and 'packet 0 received', as in the implementation; A.3 gives the "
               "same result for both readings",
               "Python ints modelled as 96-bit vectors with magnitude tracking (no wrap-around possible below 2^94)"]

TYPES = ["INITIAL", "HANDSHAKE", "RTT_O", "RTT_1"]


def configs(tier, seed):
    out = []
    for n in (1, 2, 3, 4):
        for isserver in (False, True):
            for ty in TYPES:
                out.append({"name": "len%d-%s-%s" % (n, "server" if isserver else "client", ty), "harness": "a3-step",
                            "n": n, "isserver": isserver, "ptype": ty, "mode": "real"})
    # the number that reaches the AEAD: one 1-RTT packet through decrypt_packet from an arbitrary state, key phase equal to or
    # different from the last one seen in its direction (a key update does not restart packet numbers)
    for n in ((1, 2) if tier == "quick" else (1, 2, 3, 4)):
        for isserver in (False, True):
            out.append({"name": "nonce-len%d-%s-RTT_1" % (n, "server" if isserver else "client"), "harness": "nonce-step", "n": n, "isserver": isserver,
                        "ptype": "RTT_1", "mode": "real"})
    return out


def bounds(tier):
    return {"largest": "[0, 2^62) for all six slots, symbolic", "truncated": "all values of 1..4 bytes, symbolic",
            "packet types x directions": "all 8", "history": "one step from an arbitrary state (inductive)",
            "nonce": "one 1-RTT packet through decrypt_packet with symbolic key phase and last seen key phases: the number handed to the AEAD"}


SPACES = None


def _space_of(ptype):
    return {"INITIAL": 0, "HANDSHAKE": 1, "RTT_O": 2, "RTT_1": 2}[ptype]


def a3(largest, trunc, nbits):
    """RFC 9000 Appendix A.3 on Python ints."""
    expected = largest + 1
    win = 1 << nbits
    hwin = win // 2
    mask = win - 1
    cand = (expected & ~mask) | trunc
    if cand <= expected - hwin and cand < (1 << 62) - win:
        return cand + win
    if cand > expected + hwin and cand >= win:
        return cand - win
    return cand


def _session_and_packet(cfg, slots_server, slots_client, pn):
    import tlexport.quic.quic_session as qs
    from tlexport.quic.quic_packet import QuicPacketType as T
    keys = [(T.INITIAL,), (T.HANDSHAKE,), (T.RTT_1, T.RTT_O)]
    s = qs.QuicSession.__new__(qs.QuicSession)
    s.set_packet_number_spaces()
    for k, v in zip(keys, slots_server):
        s.packet_number_server[k] = v
    for k, v in zip(keys, slots_client):
        s.packet_number_client[k] = v

    class Pkt:
        pass
    p = Pkt()
    p.isserver = cfg["isserver"]
    p.packet_type = getattr(T, cfg["ptype"])
    p.packet_num = pn
    return s, p, keys


def _run_nonce(cfg):
    from tlv.sx import shims
    from tlv.sx.core import sym_int, sym_ite, sym_and, sym_choice, ctx
    from tlv.sx.symbytes import sym_bytes
    from tlv.harness.common import explore_cfg
    import tlexport.quic.quic_session as qs
    from tlexport.quic.quic_packet import ShortQuicPacket, QuicPacketType as T
    shims.install(qs)
    n = cfg["n"]

    class Stop(Exception):
        pass

    def scenario():
        c = ctx()
        ss = [sym_int("server_slot%d" % i, 0, (1 << 62) - 1) for i in range(3)]
        cs = [sym_int("client_slot%d" % i, 0, (1 << 62) - 1) for i in range(3)]
        pn = sym_bytes("pn", n)
        s, _, keys = _session_and_packet(cfg, ss, cs, pn)
        seen = []

        class Rec:
            def decrypt(self, payload, packet_number, aad, isserver):
                seen.append(packet_number)
                raise Stop()
        s.decryptors = {"Application": [Rec(), Rec()]}
        s.epoch_server = s.epoch_client = 0
        s.last_key_phase_server = sym_choice("last_phase_server", [0, 1])
        s.last_key_phase_client = sym_choice("last_phase_client", [0, 1])
        p = ShortQuicPacket.__new__(ShortQuicPacket)
        p.packet_type, p.isserver, p.packet_num = T.RTT_1, cfg["isserver"], pn
        p.key_phase = sym_choice("key_phase", [0, 1])
        p.first_byte, p.dcid, p.payload, p.ts = b"\x40", b"", b"", 1.0
        own = (ss if cfg["isserver"] else cs)[2]
        try:
            s.decrypt_packet(p)
        except Stop:
            pass
        except Exception as e:
            c.fail("no-exception", "%s: %s" % (type(e).__name__, e))
            return {"outcome": "exception"}
        c.check(True, "no-exception")
        if not c.check(len(seen) == 1, "nonce-is-a3-value", "the AEAD was called %d times" % len(seen)):
            return {"outcome": "no decryption"}
        got = shims.IntShim.from_bytes(seen[0], "big")
        trunc = shims.IntShim.from_bytes(pn, "big")
        win = 1 << (8 * n)
        hwin = win // 2
        expected = own + 1
        cand = (expected & ~(win - 1)) | trunc
        c1 = sym_and(cand <= expected - hwin, cand < (1 << 62) - win)
        c2 = sym_and(cand > expected + hwin, cand >= win)
        exp = sym_ite(c1, cand + win, sym_ite(c2, cand - win, cand))
        c.check(got == exp, "nonce-is-a3-value")
        return {"branch": "explored"}
    return explore_cfg(scenario, cfg, timeout_ms=120000)


def _concrete_nonce(cfg, inp):
    import tlexport.quic.quic_session as qs
    from tlexport.quic.quic_packet import ShortQuicPacket, QuicPacketType as T
    ss = [inp["server_slot%d" % i] for i in range(3)]
    cs = [inp["client_slot%d" % i] for i in range(3)]
    pn = bytes.fromhex(inp["pn"])
    s, _, keys = _session_and_packet(cfg, ss, cs, pn)
    seen = []

    class Stop(Exception):
        pass

    class Rec:
        def decrypt(self, payload, packet_number, aad, isserver):
            seen.append(packet_number)
            raise Stop()
    s.decryptors = {"Application": [Rec(), Rec()]}
    s.epoch_server = s.epoch_client = 0
    s.last_key_phase_server = [0, 1][inp.get("last_phase_server", 0)]
    s.last_key_phase_client = [0, 1][inp.get("last_phase_client", 0)]
    p = ShortQuicPacket.__new__(ShortQuicPacket)
    p.packet_type, p.isserver, p.packet_num = T.RTT_1, cfg["isserver"], pn
    p.key_phase = [0, 1][inp.get("key_phase", 0)]
    p.first_byte, p.dcid, p.payload, p.ts = b"\x40", b"", b"", 1.0
    own = (ss if cfg["isserver"] else cs)[2]
    exp = a3(own, int.from_bytes(pn, "big"), 8 * len(pn))
    try:
        s.decrypt_packet(p)
    except Stop:
        pass
    except Exception as e:
        return {"ok": False, "why": "exception %r" % (e,), "expected": exp}
    got = int.from_bytes(seen[0], "big") if seen else None
    return {"ok": got == exp, "nonce_packet_number": got, "expected": exp}


def run_config(cfg):
    if cfg["harness"] == "nonce-step":
        return _run_nonce(cfg)
    from tlv.sx import core, shims
    from tlv.sx.core import sym_int, sym_ite, sym_and, sym_max, ctx
    from tlv.sx.symbytes import sym_bytes
    from tlv.harness.common import explore_cfg
    import tlexport.quic.quic_session as qs
    shims.install(qs)
    n = cfg["n"]

    def scenario():
        ss = [sym_int("server_slot%d" % i, 0, (1 << 62) - 1) for i in range(3)]
        cs = [sym_int("client_slot%d" % i, 0, (1 << 62) - 1) for i in range(3)]
        pn = sym_bytes("pn", n)
        s, p, keys = _session_and_packet(cfg, ss, cs, pn)
        trunc = shims.IntShim.from_bytes(pn, "big")
        own = (ss if cfg["isserver"] else cs)[_space_of(cfg["ptype"])]
        from tlv.sx.core import ctx as _ctx
        try:
            out = s.get_full_packet_number(p)
        except Exception as e:
            _ctx().fail("no-exception", "%s: %s" % (type(e).__name__, e))
            return {"outcome": "exception"}
        _ctx().check(True, "no-exception")
        got = shims.IntShim.from_bytes(out, "big")
        # RFC 9000 A.3 as one term
        nbits = 8 * n
        expected = own + 1
        win = 1 << nbits
        hwin = win // 2
        cand = (expected & ~(win - 1)) | trunc
        c1 = sym_and(cand <= expected - hwin, cand < (1 << 62) - win)
        c2 = sym_and(cand > expected + hwin, cand >= win)
        exp = sym_ite(c1, cand + win, sym_ite(c2, cand - win, cand))
        c = ctx()
        c.check(got == exp, "a3-value")
        c.check(len(out) <= 12, "nonce-fits")
        new_s = [s.packet_number_server[k] for k in keys]
        new_c = [s.packet_number_client[k] for k in keys]
        idx = _space_of(cfg["ptype"])
        own_new = (new_s if cfg["isserver"] else new_c)[idx]
        c.check(own_new == sym_max(own, exp), "own-slot-is-max")
        others = []
        for i in range(3):
            if not (cfg["isserver"] and i == idx):
                others.append(new_s[i] == ss[i])
            if not ((not cfg["isserver"]) and i == idx):
                others.append(new_c[i] == cs[i])
        c.check(sym_and(*others), "other-slots-unchanged")
        return {"branch": "explored"}

    return explore_cfg(scenario, cfg, timeout_ms=120000)


def _concrete(cfg, inp):
    if cfg["harness"] == "nonce-step":
        return _concrete_nonce(cfg, inp)
    ss = [inp["server_slot%d" % i] for i in range(3)]
    cs = [inp["client_slot%d" % i] for i in range(3)]
    pn = bytes.fromhex(inp["pn"])
    s, p, keys = _session_and_packet(cfg, ss, cs, pn)
    idx = _space_of(cfg["ptype"])
    own = (ss if cfg["isserver"] else cs)[idx]
    exp = a3(own, int.from_bytes(pn, "big"), 8 * len(pn))
    try:
        out = s.get_full_packet_number(p)
    except Exception as e:
        return {"ok": False, "why": "exception %r" % (e,), "expected": exp}
    got = int.from_bytes(out, "big")
    new_s = [s.packet_number_server[k] for k in keys]
    new_c = [s.packet_number_client[k] for k in keys]
    exp_s, exp_c = list(ss), list(cs)
    (exp_s if cfg["isserver"] else exp_c)[idx] = max(own, exp)
    ok = got == exp and new_s == exp_s and new_c == exp_c and len(out) <= 12
    return {"ok": ok, "got": got, "expected": exp, "slots": [new_s, new_c], "expected_slots": [exp_s, exp_c]}


def replay(cfg, viol):
    r = _concrete(cfg, viol["inputs"])
    return {"reproduced": not r["ok"], **r}


def validate(cfg, sample):
    r = _concrete(cfg, sample["inputs"])
    return {"agree": r["ok"], **r}
