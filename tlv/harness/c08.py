"""C08 - cutting the capture at any point only removes a suffix of the export.

seg : C05's reassembly scenarios (cuts, duplicate / coalesced retransmission, reordering) with a solver-chosen cut: the records the
      session delivers from packets[:j] must be a prefix, per direction, of those delivered from all packets.
tls : C01 scenarios (one record per segment, and records cut into small segments) with a solver-chosen cut index j; the pipeline
      runs on packets[:j] and on all packets inside one path; per direction the first export must be a byte-prefix of the second."""

VALIDATE = True
SITES = ["no-exception", "client-prefix", "server-prefix", "records-prefix"]
MODELS = ["as C01"]
ASSUMPTIONS = ["as C01"]


def configs(tier, seed):
    from tlv.harness import c01
    out, seen = [], set()
    first_shape = {}
    for c in c01.configs(tier, seed):
        if c["harness"] != "pipeline":
            continue
        k = (c["version"], c.get("shape"), c.get("etm", False), c.get("keylog_label")) if tier == "thorough" else (c["version"], c.get("shape"))
        fam = (k, c["suite_name"].split("_WITH_")[-1].split("_")[0] if tier == "thorough" else None)
        if fam in seen:
            continue
        seen.add(fam)
        first_shape.setdefault(c["version"], c.get("shape"))
        segs = (None, 7) if tier == "thorough" else ((None, 16) if c.get("shape") == first_shape[c["version"]] else (None,))
        for seg in segs:
            slices = 4 if seg else 2
            for sl in range(slices):
                cc = dict(c)
                cc.update(harness="tls-cut", name="cut-%s%s-part%d" % (c["name"], "-seg%d" % seg if seg else "", sl), seg_size=seg, records=2,
                          max_len=1, cut_slice=[sl, slices])
                out.append(cc)
    # the capture clock steps back somewhere inside the connection (times are not monotonic; capture order is what counts)
    base = [c for c in out if c["harness"] == "tls-cut" and not c.get("seg_size")]
    for c in base[:2] if tier == "quick" else base[:8]:
        cc = dict(c)
        cc.update(name=c["name"] + "-clock-step", clock_step=True)
        out.append(cc)
    from tlv.harness import c05
    for c5 in c05.configs("quick", seed):          # C05's thorough plans (3 records, 3 cuts) times every cut index are out of reach
        if c5["harness"] != "segmentation" or c5["isn"] != "any" or c5["transform"] == "cuts" or c5["ncuts"] == 0:
            continue
        if tier == "quick" and c5["nrec"] + c5["ncuts"] > 3:
            continue
        cc = dict(c5)
        cc.update(harness="seg-cut", name="segcut-" + c5["name"])
        out.append(cc)
    from tlv.harness import c02
    for c in c02.configs(tier, seed):
        if tier == "quick" and not (c["name"].endswith("cid8.4.8") or c["name"].endswith("cid8.0.8")):
            continue
        if tier == "quick" and c["suite"] != 0x1301 and not c["name"].startswith("%04x-basic" % c["suite"]):
            continue
        c = dict(c)
        c["name"] = "cut-quic-" + c["name"]
        c["harness"] = "quic-cut"
        out.append(c)
    return out


def bounds(tier):
    return {"cut positions": "every j in 0..N (solver-chosen) for every scenario", "segmentation": "one record per segment, and every record cut into %d-byte segments" % (7 if tier == "thorough" else 16),
            "scenarios": "C01 pipeline scenarios, one suite per (version, handshake shape) in quick", "N": "<= ~60 packets",
            "seg": "C05's record streams with one duplicate, one coalesced retransmission or one displaced segment, every cut position"}


def _run_quic(cfg):
    from tlv.sx.core import ctx, sym_choice
    from tlv.harness import pipeline as P, c02
    from tlv.harness.common import explore_cfg
    from tlv.oracle import scenario as SC, quic_scenario as QS
    mods = P.setup_symbolic()

    def scenario():
        c = ctx()
        src = SC.SymSrc()
        dgrams, keylog, meta = QS.build(cfg, src)
        c02.assume_cids_prefix_free(c, meta)
        c02.assume_no_accidental_cid(c, meta, dgrams)
        ep = P.Endpoint(ipv=cfg.get("ipv", 4))
        frames = P.udp_frames(ep, dgrams)
        j = sym_choice("cut", list(range(0, len(frames) + 1)))
        try:
            res = []
            for fs in (frames[:j], frames):
                out, sessions = P.run_quic(mods, fs, P.keylog_objects(mods, keylog))
                pl = [x for x in P.udp_payloads(out, ep)]
                res.append({d: P.concat([x[1] for x in pl if x[0] == d]) for d in (False, True)})
        except Exception as e:
            import traceback
            c.fail("no-exception", "%s: %s %s" % (type(e).__name__, e, traceback.format_exc().splitlines()[-3:-1]))
            return {"outcome": "exception"}
        c.check(True, "no-exception")
        for d, label in ((False, "client-prefix"), (True, "server-prefix")):
            a, b = res[0][d], res[1][d]
            c.check(len(a) <= len(b) and (a == b[:len(a)]), label, "cut after %d of %d datagrams: %d bytes exported, full capture %d" % (j, len(frames), len(a), len(b)))
        return {"outcome": "cut %d/%d" % (j, len(frames))}
    return explore_cfg(scenario, cfg, timeout_ms=60000, sample_paths=1, max_paths=100000)


def _run_segcut(cfg):
    from tlv.sx import shims
    from tlv.sx.core import ctx, sym_int, sym_choice, sym_and
    from tlv.sx.symbytes import mixed_bytes, as_symbytes
    from tlv.harness import c05
    from tlv.harness.common import explore_cfg
    import tlexport.session as ts
    import tlexport.tlsrecord as tr
    shims.install(ts)
    shims.install(tr)

    def scenario():
        c = ctx()
        plan = c05._plan(cfg, sym_choice)
        nrec, lens, total, segs, order, other_pos = plan
        recs = [mixed_bytes("rec%d" % i, [3, (lens[i]).to_bytes(2, "big"), lens[i]]) for i in range(nrec)]
        other = mixed_bytes("other", [3, b"\x00\x01", 1])
        isn = sym_int("isn", 0, (1 << 32) - 1)
        isn_o = sym_int("isn_other", 0, (1 << 32) - 1)
        pkts = c05._build(cfg, plan, recs, other, isn, isn_o)
        j = sym_choice("cut", list(range(1, len(pkts) + 1)))
        main_server = cfg["main"] == "server"
        res = []
        try:
            for part in (pkts[:j], pkts):
                s, got = c05._run_session(part)
                if c05._ooo_event(s, got, plan, main_server):
                    return {"outcome": "known C05 finding", "validate": False}
                res.append(got)
        except Exception as e:
            c.fail("no-exception", "%s: %s" % (type(e).__name__, e))
            return {"outcome": "exception"}
        c.check(True, "no-exception")
        conds = []
        for d in (False, True):
            a = [r for r, f in res[0] if f == d]
            b = [r for r, f in res[1] if f == d]
            if len(a) > len(b):
                c.fail("records-prefix", "cut after %d of %d packets delivers %d records, the full capture %d" % (j, len(pkts), len(a), len(b)))
                return {"outcome": "more records from less input"}
            conds += [as_symbytes(x.raw) == as_symbytes(y.raw) for x, y in zip(a, b)]
        c.check(sym_and(*conds) if conds else True, "records-prefix")
        return {"outcome": "cut %d/%d" % (j, len(pkts))}
    return explore_cfg(scenario, cfg, timeout_ms=60000, max_paths=300000, sample_paths=1)


def _concrete_segcut(cfg, inp):
    from tlv.harness import c05

    def choose(name, options):
        return options[inp[name]] if len(options) > 1 else options[0]
    plan = c05._plan(cfg, choose)
    nrec, lens, total, segs, order, other_pos = plan
    recs = [bytes.fromhex(inp["rec%d" % i]) for i in range(nrec)]
    pkts = c05._build(cfg, plan, recs, bytes.fromhex(inp["other"]), inp["isn"], inp["isn_other"])
    opts = list(range(1, len(pkts) + 1))
    j = opts[inp["cut"]] if len(opts) > 1 else opts[0]
    main_server = cfg["main"] == "server"
    res = []
    for part in (pkts[:j], pkts):
        try:
            s, got = c05._run_session(part)
        except Exception as e:
            return {"ok": False, "problems": ["exception %s: %s" % (type(e).__name__, e)]}
        if c05._ooo_event(s, got, plan, main_server):
            return {"ok": True, "ooo_event": True}
        res.append(got)
    problems = []
    for d in (False, True):
        a = [bytes(r.raw) for r, f in res[0] if f == d]
        b = [bytes(r.raw) for r, f in res[1] if f == d]
        if a != b[:len(a)]:
            problems.append("%s: cut at %d delivers %s, the full capture %s" % ("server" if d else "client", j, [x.hex() for x in a], [x.hex() for x in b]))
    return {"ok": not problems, "problems": problems, "segments": [(p.tag, p.seq, bytes(p.tls_data).hex()) for p in pkts]}


def run_config(cfg):
    if cfg["harness"] == "quic-cut":
        return _run_quic(cfg)
    if cfg["harness"] == "seg-cut":
        return _run_segcut(cfg)
    from tlv.sx.core import ctx, sym_choice
    from tlv.harness import pipeline as P
    from tlv.harness.common import explore_cfg
    from tlv.oracle import scenario as SC
    mods = P.setup_symbolic()

    def scenario():
        c = ctx()
        src = SC.SymSrc()
        items, keylog, meta = SC.build(cfg, src)
        ep = P.Endpoint(ipv=cfg.get("ipv", 4))
        frames = P.tcp_frames(ep, items, seg_size=cfg.get("seg_size"))
        if cfg.get("clock_step"):
            frames = P.clock_step(frames, sym_choice("clock_step_at", P.clock_step_positions(len(frames))))
        sl, nsl = cfg.get("cut_slice", [0, 1])
        allcuts = list(range(0, len(frames) + 1))
        mine = [x for x in allcuts if x % nsl == sl]
        j = sym_choice("cut", mine)
        try:
            res = []
            for fs in (frames[:j], frames):
                out, sessions = P.run_tls(mods, fs, P.keylog_objects(mods, keylog))
                st = P.tcp_streams(out, ep)
                res.append({d: P.concat([x[0] for x in st[d]]) for d in (False, True)})
        except Exception as e:
            import traceback
            c.fail("no-exception", "%s: %s %s" % (type(e).__name__, e, traceback.format_exc().splitlines()[-3:-1]))
            return {"outcome": "exception"}
        c.check(True, "no-exception")
        for d, label in ((False, "client-prefix"), (True, "server-prefix")):
            a, b = res[0][d], res[1][d]
            c.check(len(a) <= len(b) and (a == b[:len(a)]), label, "cut after %d of %d packets: %d bytes exported, full capture %d" % (j, len(frames), len(a), len(b)))
        return {"outcome": "cut %d/%d" % (j, len(frames))}
    return explore_cfg(scenario, cfg, timeout_ms=60000, sample_paths=1, max_paths=100000)


def _concrete_quic(cfg, inp):
    from tlv import e2e
    from tlv.harness import pipeline as P
    from tlv.oracle import scenario as SC, quic_scenario as QS
    dgrams, keylog, meta = QS.build(cfg, SC.ConcreteSrc(inp))
    ep = P.Endpoint(ipv=cfg.get("ipv", 4))
    pk = e2e.concrete_udp_frames(ep, dgrams)
    j = inp.get("cut", 0)
    outs = []
    for fs in (pk[:j], pk):
        if not fs:
            outs.append({False: b"", True: b""})
            continue
        r = e2e.run_tlexport(fs, e2e.keylog_text(keylog))
        if r["problems"]:
            return {"ok": False, "problems": r["problems"][:3]}
        u = e2e.udp_of(r, ep)
        outs.append({d: b"".join(p for dd, p, t in u if dd == d) for d in (False, True)})
    problems = []
    for d in (False, True):
        if not outs[1][d].startswith(outs[0][d]):
            problems.append("%s: cut at %d exports %s, full capture exports %s" % ("server" if d else "client", j, outs[0][d].hex(), outs[1][d].hex()))
    return {"ok": not problems, "problems": problems}


def _concrete(cfg, inp):
    if cfg["harness"] == "quic-cut":
        return _concrete_quic(cfg, inp)
    if cfg["harness"] == "seg-cut":
        return _concrete_segcut(cfg, inp)
    from tlv import e2e
    from tlv.harness import pipeline as P
    from tlv.oracle import scenario as SC
    src = SC.ConcreteSrc(inp)
    items, keylog, meta = SC.build(cfg, src)
    ep = P.Endpoint(ipv=cfg.get("ipv", 4))
    pk = e2e.concrete_frames(ep, items, seg_size=cfg.get("seg_size"))
    if cfg.get("clock_step"):
        opts = P.clock_step_positions(len(pk))
        k = opts[inp.get("clock_step_at", 0)] if len(opts) > 1 else opts[0]
        pk = [(f, t) if i < k else (f, t - 50000000) for i, (f, t) in enumerate(pk)]
    sl, nsl = cfg.get("cut_slice", [0, 1])
    mine = [x for x in range(0, len(pk) + 1) if x % nsl == sl]
    j = mine[inp.get("cut", 0)] if len(mine) > 1 else mine[0]
    outs = []
    for fs in (pk[:j], pk):
        if not fs:
            outs.append({"c2s": b"", "s2c": b""})
            continue
        r = e2e.run_tlexport(fs, e2e.keylog_text(keylog))
        if r["problems"]:
            return {"ok": False, "problems": r["problems"][:3]}
        conv, convs = e2e.streams_of(r, ep)
        outs.append({"c2s": conv["c2s"] if conv else b"", "s2c": conv["s2c"] if conv else b""})
    problems = []
    for side in ("c2s", "s2c"):
        if not outs[1][side].startswith(outs[0][side]):
            problems.append("%s: cut at %d exports %s, full capture exports %s" % (side, j, outs[0][side].hex(), outs[1][side].hex()))
    return {"ok": not problems, "problems": problems}


def replay(cfg, viol):
    r = _concrete(cfg, viol["inputs"])
    return {"reproduced": not r["ok"], **r}


def validate(cfg, sample):
    r = _concrete(cfg, sample["inputs"])
    return {"agree": r["ok"], **r}
