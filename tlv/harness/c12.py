"""C12 - the export does not depend on the capture container.

reader : dpkt_dsb.Reader.__init__/__iter__ run on a block-level model of a pcapng file: the block layout is concrete per
         configuration (byte order x EPB/PB x foreign blocks at every position x DSB), the block *fields* are symbolic (tick
         words, if_tsresol over all 256 values, if_tsoffset, the type of foreign blocks over all 32-bit values).  The reader must
         yield exactly the packet and DSB blocks, in order, with the payload untouched, use the classes of the file's byte order,
         and compute  if_tsoffset + ticks / 10^k  (MSB clear) or  ticks / 2^k  (MSB set).
scale  : for resolutions 10^-3, 10^-6, 10^-9, 2^-10, 2^-20 the computed time of an instant that is a whole microsecond below 2^51
         us is written back as that microsecond (rounding-error model of IEEE doubles, z3 reals).
legacy : main.run with -l takes dpkt.pcap.Reader and feeds its (ts, buf) pairs through the same loop: identical writer calls.
files  : the same packets as real files - little/big endian, EPB/PB, tsresol 3/6/9/2^-10/2^-20, if_tsoffset, name-resolution /
         statistics / custom blocks interspersed, DSB, legacy pcap with -l - through the real program: identical export."""

VALIDATE = False
SITES = ["no-exception", "yields-exactly-packet-and-dsb-blocks", "byte-order-consistent", "timestamp-expression", "scale-microsecond", "legacy-same-writer-calls",
         "files-same-export"]
MODELS = ["pcapng file: block-level model (tlv/harness/c12.py: FileModel, Dpng) replacing dpkt.pcapng inside tlexport.dpkt_dsb; dpkt's struct-level "
          "parsing of blocks is third-party code and is exercised only by the concrete 'files' harness",
          "IEEE doubles in the scale lemma: error <= half an ulp of the result's binade per operation"]
ASSUMPTIONS = ["one section, one interface", "scale lemma: instants that are whole microseconds below 2^51 us"]

EPB, PB, DSB, SHB, IDB = 6, 2, 0x0A, 0x0A0D0D0A, 1


def configs(tier, seed):
    out = []
    layouts = []
    base = ["epb", "epb", "epb"]
    for le in (True, False):
        for kind in ("epb", "pb"):
            pk = [kind] * 3
            layouts.append((le, pk, "plain"))
            for pos in range(4):
                l = list(pk)
                l.insert(pos, "foreign")
                layouts.append((le, l, "foreign@%d" % pos))
            l = ["dsb"] + list(pk)
            layouts.append((le, l, "dsb-first"))
            l = list(pk) + ["dsb", "foreign"]
            layouts.append((le, l, "dsb-last"))
            l = ["dsb<idb"] + list(pk)
            layouts.append((le, l, "dsb-before-idb"))
            l = ["foreign<idb"] + list(pk)
            layouts.append((le, l, "foreign-before-idb"))
    for le, l, nm in layouts:
        out.append({"harness": "reader", "name": "reader-%s-%s-%s" % ("le" if le else "be", l[-1] if nm == "plain" else [x for x in l if x in ("epb", "pb")][0], nm), "le": le, "layout": l})
    for nm, kind, k in (("ms", "dec", 3), ("us", "dec", 6), ("ns", "dec", 9), ("2^-10", "bin", 10), ("2^-20", "bin", 20)):
        out.append({"harness": "scale", "name": "scale-" + nm, "kind": kind, "k": k, "mode": "real"})
    out.append({"harness": "legacy", "name": "legacy-wiring"})
    out.append({"harness": "legacy", "name": "legacy-wiring-nanosecond-file", "nano": True})
    for i in range(3 if tier == "quick" else 8):
        out.append({"harness": "files", "name": "files-%d" % i, "i": i, "mode": "real", "seed": seed})
    return out


def bounds(tier):
    return {"reader": "3 packet blocks (EPB or PB), one foreign block at every position, DSB first/last; both byte orders; if_tsresol all 256 values; "
                      "if_tsoffset 32-bit signed; tick words 32+32 bits; foreign block type any 32-bit value except EPB/PB/DSB",
            "scale": "resolutions 10^-3, 10^-6, 10^-9, 2^-10, 2^-20; instants below 2^51 microseconds", "files": "concrete container variants of C01/C02 captures"}


# ---- block-level file model ---------------------------------------------------------------------------------------------------

class Tok:
    def __init__(self, block, part, n):
        self.block, self.part, self.n = block, part, n

    def __len__(self):
        return self.n

    def __add__(self, o):
        if isinstance(o, Tok) and o.block is self.block:
            return Tok(self.block, "full", self.n + o.n)
        if isinstance(o, (bytes, bytearray)) and len(o) == 0:
            return self
        raise TypeError("cannot join blocks")

    __iadd__ = __add__


class FileModel:
    name = "<model>"

    def __init__(self, blocks):
        self.blocks, self.i, self.half = blocks, 0, False

    def seek(self, pos):
        # positions are block boundaries: (index of the next block, header already read)
        self.i, self.half = (0, False) if pos == 0 else pos

    def tell(self):
        return (self.i, self.half)

    def read(self, n):
        if self.i >= len(self.blocks):
            return b""
        b = self.blocks[self.i]
        if not self.half:
            self.half = True
            return Tok(b, "hdr", n if isinstance(n, int) else 8)
        self.half = False
        self.i += 1
        return Tok(b, "body", 4)


class UsedWrongByteOrder(Exception):
    pass


def make_dpng(le, record):
    """Stand-in for dpkt.pcapng as seen by tlexport.dpkt_dsb; `record` collects which classes/formats were used."""
    import dpkt.pcapng as real

    class NS:
        pass
    d = NS()
    for k in ("PCAPNG_BT_SHB", "PCAPNG_BT_IDB", "PCAPNG_BT_EPB", "PCAPNG_BT_PB", "BYTE_ORDER_MAGIC", "BYTE_ORDER_MAGIC_LE", "PCAPNG_VERSION_MAJOR",
              "PCAPNG_OPT_IF_TSRESOL", "PCAPNG_OPT_IF_TSOFFSET", "dltoff"):
        setattr(d, k, getattr(real, k))
    d._swap32b = lambda x: x

    def struct_unpack(fmt, buf):
        if isinstance(buf, Tok):
            if fmt[0] != ("<" if le else ">"):
                record.append("wrong-order:" + fmt)
            return buf.block["type"], buf.block.get("len", 32)
        # option payloads
        if fmt == "b":
            return (buf.value,)
        if fmt.lstrip("<>=@!") == "q":
            import sys
            order = fmt[0] if fmt[0] in "<>!" else ("<" if sys.byteorder == "little" else ">")     # native order when none is given
            order = ">" if order == "!" else order
            if order != ("<" if le else ">"):
                record.append("wrong-order:" + fmt)
            return (buf.value,)
        raise AssertionError(fmt)
    d.struct_unpack = struct_unpack

    class SHBase:
        __hdr_len__ = 28

        def __init__(self, buf=None):
            self.blk = buf.block if buf is not None else None
            if buf is not None:
                self._load()

        def unpack_hdr(self, buf):
            self.blk = buf.block
            self._load()

        def _load(self):
            self.type = self.blk["type"]
            self.bom = real.BYTE_ORDER_MAGIC_LE if le else real.BYTE_ORDER_MAGIC     # as read big-endian first
            self.len = self.blk.get("len", 28)
            self.v_major = 1
            self.v_minor = 0

    def mk(kind, cls_le):
        class Blk:
            def __init__(self, buf):
                b = buf.block
                record.append("%s:%s" % (kind, "le" if cls_le else "be"))
                if buf.part != "full":
                    record.append("partial-block")
                self.__dict__.update({k: v for k, v in b.items() if k not in ("type", "len")})
        Blk.__name__ = kind + ("LE" if cls_le else "")
        return Blk
    d.SectionHeaderBlock = SHBase

    class SHLE(SHBase):
        def __init__(self, buf=None):
            record.append("shb:le")
            super().__init__(buf)
    d.SectionHeaderBlockLE = SHLE
    d.InterfaceDescriptionBlock, d.InterfaceDescriptionBlockLE = mk("idb", False), mk("idb", True)
    d.EnhancedPacketBlock, d.EnhancedPacketBlockLE = mk("epb", False), mk("epb", True)
    d.PacketBlock, d.PacketBlockLE = mk("pb", False), mk("pb", True)
    return d, mk("dsb", False), mk("dsb", True)


class OptData:
    """Payload of an interface option: the model's struct_unpack hands out the value; any other decoder (int.from_bytes, indexing, a loop
    over the bytes) sees the bytes of its two's-complement encoding in the file's byte order."""
    def __init__(self, value, width=1, le=True):
        self.value, self.width, self.le = value, width, le

    def _bytes(self):
        from tlv.sx.core import SymInt
        v = self.value
        order = "little" if self.le else "big"
        return (v & ((1 << (8 * self.width)) - 1)).to_bytes(self.width, order) if isinstance(v, (SymInt, int)) else v

    def __iter__(self):
        return iter(self._bytes())

    def __len__(self):
        return self.width

    def __getitem__(self, i):
        return self._bytes()[i]


class Opt:
    def __init__(self, code, value, width=1, le=True):
        self.code, self.data = code, OptData(value, width, le)


def _run_reader(cfg):
    from tlv.sx import shims
    from tlv.sx.core import ctx, sym_int, sym_not, sym_and, sym_or, SymInt, sym_choice
    from tlv.sx.symfloat import SymFloat
    from tlv.harness.common import explore_cfg
    import tlexport.dpkt_dsb as dd
    shims.install(dd)
    le = cfg["le"]

    def scenario():
        c = ctx()
        record = []
        dpng, DsbBE, DsbLE = make_dpng(le, record)
        dd.dpng = dpng
        dd.DecryptionSecretBlock, dd.DecryptionSecretBlockLE = DsbBE, DsbLE
        res = sym_int("if_tsresol", -128, 127)          # struct 'b': signed byte
        off = sym_int("if_tsoffset", -(1 << 31), (1 << 31) - 1)
        idb = {"type": IDB, "opts": [Opt(9, res, 1, le), Opt(14, off, 8, le)], "linktype": 1, "snaplen": 65535}
        blocks = [{"type": SHB}, idb]
        want = []
        for i, kind in enumerate(cfg["layout"]):
            if kind.endswith("<idb"):
                # a block between the section header and the interface description
                if kind.startswith("dsb"):
                    data = object()
                    blocks.insert(1, {"type": DSB, "pkt_data": data})
                    want.append(("dsb", None, None, data))
                else:
                    t = sym_int("foreign_type%d" % i, 0, (1 << 32) - 1)
                    c.assume(sym_and(sym_not(t == EPB), sym_not(t == PB), sym_not(t == DSB), sym_not(t == IDB), sym_not(t == SHB)))
                    blocks.insert(1, {"type": t, "len": sym_choice("foreign_len%d" % i, [12, 32])})
                continue
            if kind in ("epb", "pb"):
                hi, lo = sym_int("hi%d" % i, 0, (1 << 32) - 1), sym_int("lo%d" % i, 0, (1 << 32) - 1)
                data = object()
                blocks.append({"type": EPB if kind == "epb" else PB, "ts_high": hi, "ts_low": lo, "pkt_data": data})
                want.append(("pkt", hi, lo, data))
            elif kind == "dsb":
                data = object()
                blocks.append({"type": DSB, "pkt_data": data})
                want.append(("dsb", None, None, data))
            else:
                t = sym_int("foreign_type%d" % i, 0, (1 << 32) - 1)
                c.assume(sym_and(sym_not(t == EPB), sym_not(t == PB), sym_not(t == DSB)))
                # total block length: 12 is the smallest legal block (empty body)
                blocks.append({"type": t, "len": sym_choice("foreign_len%d" % i, [12, 32])})
        try:
            r = dd.Reader(FileModel(blocks))
            got = list(r)
        except Exception as e:
            import traceback
            c.fail("no-exception", "%s: %s %s" % (type(e).__name__, e, traceback.format_exc().splitlines()[-3:-1]))
            return {"outcome": "exception"}
        c.check(True, "no-exception")
        def is_dsb_ts(t):
            return isinstance(t, int) and not isinstance(t, bool) and t == -1
        ok = len(got) == len(want) and all(g[1] is w[3] for g, w in zip(got, want)) and all(is_dsb_ts(g[0]) == (w[0] == "dsb") for g, w in zip(got, want))
        c.check(ok, "yields-exactly-packet-and-dsb-blocks", "yielded %d items for %d packet/DSB blocks" % (len(got), len(want)))
        wrong = [x for x in record if x.startswith("wrong-order") or x == "partial-block" or (":" in x and x.split(":")[1] in ("le", "be") and (x.split(":")[1] == "le") != le)]
        c.check(not wrong, "byte-order-consistent", "used %r on a %s-endian file" % (wrong[:3], "little" if le else "big"))
        # timestamp expression: tsoffset + ticks / divisor, divisor = 10^(v & 127) if v >= 0 else 2^(v & 127)
        rv = res.concretise() if isinstance(res, SymInt) else res
        k = rv & 0x7f
        divisor = float((2 if rv < 0 else 10) ** k)
        conds = []
        for g, w in zip(got, want):
            if w[0] != "pkt":
                continue
            ts = g[0]
            e = getattr(ts, "expr", None)
            if e is None or e[0] != "add":
                conds.append(False)
                continue
            a, b = e[1], e[2]
            if a[0] != "int":
                a, b = b, a
            if a[0] != "int" or b is None or b[0] != "div" or b[1][0] != "int" or b[2] != ("const", divisor):
                conds.append(False)
                continue
            conds.append(a[1] == off)
            conds.append(b[1][1] == ((w[1] << 32) | w[2]))
        if any(x is False for x in conds):
            # the computation has another shape: steer the counterexample to tick values on which any other formula shows
            for w in want:
                if w[0] == "pkt":
                    c.assume(w[1] == 3)
                    c.assume(w[2] == 1234567891)
        c.check(sym_and(*conds) if conds else True, "timestamp-expression", "if_tsresol %d" % rv)
        return {"outcome": "%d yielded" % len(got), "validate": False}
    return explore_cfg(scenario, cfg, timeout_ms=60000, sample_paths=1, max_paths=5000)


def _run_scale(cfg):
    """round(ts * 1e6) == microseconds of the instant, whenever that is an integer below 2^51; ts is the computation the real Reader
    performs for if_tsresol = cfg (recorded by pushing recording variables through it, tlv.sx.realmodel)."""
    import time
    import z3
    from tlv.sx import realmodel as rm
    t0 = time.time()
    viol, inconc = [], []
    div = (10 ** cfg["k"]) if cfg["kind"] == "dec" else (2 ** cfg["k"])
    raw = cfg["k"] if cfg["kind"] == "dec" else cfg["k"] - 128          # the option's signed byte
    n = 0
    try:
        exprs = rm.recorded_timestamps(raw, 0)
    except rm.Unsupported as ex:
        exprs = []
        inconc.append("timestamp computation not recorded: %s" % ex)
    except Exception as ex:
        exprs = []
        viol.append({"label": "scale-microsecond", "inputs": {"kind": cfg["kind"], "k": cfg["k"], "exception": True}, "detail": "%s: %s" % (type(ex).__name__, ex)})
    for e in exprs:
        try:
            s, m, us = rm.microsecond_query(e, div, True)
        except rm.Unsupported as ex:
            inconc.append("timestamp computation not modelled: %s" % ex)
            continue
        r = s.check()
        n += 1
        if r == z3.sat:
            mdl = s.model()
            viol.append({"label": "scale-microsecond", "inputs": {"ts_high": mdl[m.vars["ts_high"]].as_long(), "ts_low": mdl[m.vars["ts_low"]].as_long(),
                                                                     "microseconds": mdl[us].as_long(), "kind": cfg["kind"], "k": cfg["k"]},
                         "detail": "model allows a different microsecond"})
        elif r != z3.unsat:
            inconc.append("solver: %s" % r)
    return {"stats": {"paths": n, "decisions": n, "queries": n, "solver_s": time.time() - t0, "checks": n}, "violations": viol, "sites": {"scale-microsecond": n},
            "inconclusive": inconc, "samples": [{"path": 0, "inputs": {"divisor": div}, "result": "rounding-error model", "validate": False}]}


def _run_legacy(cfg):
    from tlv.sx.core import ctx
    from tlv.harness import pipeline as P, rundriver as RD, c18
    from tlv.harness.common import explore_cfg
    from tlv.oracle import scenario as SC
    mods = P.setup_symbolic()

    def scenario():
        c = ctx()
        blocks, keylog, _ = c18._scenario_blocks(mods, "tls", SC.SymSrc(), P.Endpoint(ipv=4))
        mods["tlexport.keylog_reader"].get_keys_from_string = lambda text: P.keylog_objects(mods, keylog)
        argv = ["-i", "in", "-o", "o.pcapng", "-s", "k.log"]
        try:
            e1 = RD.RunEnv(mods, blocks, files={"k.log": ""})
            a = c18._summ(RD.run_main(mods, argv, e1))
            legacy_blocks = None
            if cfg.get("nano"):
                # dpkt.pcap.Reader yields decimal.Decimal timestamps for files with the nanosecond magic number
                from decimal import Decimal
                legacy_blocks = [(Decimal(ts), buf) for ts, buf in blocks]
            e2 = RD.RunEnv(mods, blocks, files={"k.log": ""}, legacy_blocks=legacy_blocks)
            b = c18._summ(RD.run_main(mods, argv + ["-l"], e2))
        except Exception as e:
            import traceback
            c.fail("no-exception", "%s: %s %s" % (type(e).__name__, e, traceback.format_exc().splitlines()[-3:-1]))
            return {"outcome": "exception"}
        c.check(True, "no-exception")
        c.check(e1.reader_kind == "pcapng" and e2.reader_kind == "pcap" and c18._same(a, b) and len(a) >= 3, "legacy-same-writer-calls",
                "readers used: %s / %s; %d vs %d packets" % (e1.reader_kind, e2.reader_kind, len(a), len(b)))
        return {"outcome": "same", "validate": False}
    return explore_cfg(scenario, cfg, timeout_ms=60000, sample_paths=1)


def _variants(pk):
    """Container variants of the same packets: name -> kwargs for the writer / run."""
    from tlv.oracle import pcapng
    def scaled(per_s):
        return [(fr, (t * per_s) // 1000000) for fr, t in pk]
    nrb = lambda e: pcapng.other_block(4, b"\x00\x00\x00\x00", e)
    isb = lambda e: pcapng.other_block(5, b"\x00" * 12, e)
    cust = lambda e: pcapng.other_block(0x00000BAD, b"\x01\x02\x03\x04" * 3, e)
    n = len(pk)
    return {
        "le-epb-us": dict(packets=pk, kw=dict(e="<")),
        "be-epb-us": dict(packets=pk, kw=dict(e=">")),
        "le-pb": dict(packets=pk, kw=dict(e="<", packet_block="pb")),
        "be-pb": dict(packets=pk, kw=dict(e=">", packet_block="pb")),
        "le-tsresol6-explicit": dict(packets=pk, kw=dict(e="<", tsresol=6)),
        "le-ms": dict(packets=scaled(1000), kw=dict(e="<", tsresol=3)),
        "be-ns": dict(packets=scaled(10 ** 9), kw=dict(e=">", tsresol=9)),
        "le-2^-10": dict(packets=scaled(1024), kw=dict(e="<", tsresol=0x80 | 10)),
        "le-2^-20": dict(packets=scaled(1 << 20), kw=dict(e="<", tsresol=0x80 | 20)),
        "le-foreign-blocks": dict(packets=pk, kw=dict(e="<", extra_blocks=[(0, nrb("<")), (1, isb("<")), (n // 2, cust("<")), (n, isb("<"))])),
        "be-foreign-blocks": dict(packets=pk, kw=dict(e=">", extra_blocks=[(0, cust(">")), (n // 2, nrb(">")), (n, isb(">"))])),
        "legacy-pcap": dict(packets=pk, legacy=True),
        "legacy-pcap-be": dict(packets=pk, legacy=dict(e=">")),
        "legacy-pcap-ns": dict(packets=pk, legacy=dict(nano=True)),
        "legacy-pcap-ns-be": dict(packets=pk, legacy=dict(e=">", nano=True)),
    }


def _run_files(cfg):
    """Concrete: the same capture in every container variant through the real program."""
    import random
    import time
    from tlv import e2e
    from tlv.harness import pipeline as P, c01, c02
    from tlv.oracle import scenario as SC, quic_scenario as QS
    t0 = time.time()
    rnd = random.Random(cfg["seed"] * 100 + cfg["i"])
    pk, kl = [], []
    tc = dict(rnd.choice([c for c in c01.configs("quick", cfg["seed"]) if c["harness"] == "pipeline"]))
    tc.update(records=2, max_len=9)
    items, keylog, _ = SC.build(tc, SC.ConcreteSrc({}, prefix="f%d." % cfg["i"]))
    # times are whole milliseconds (so every resolution in the variants can represent them) with different sub-second parts
    base = 1700000000 * 10 ** 6
    for j, (fr, t) in enumerate(e2e.concrete_frames(P.Endpoint(ipv=rnd.choice([4, 6])), items)):
        pk.append((fr, base + (j * 7919 % 997) * 1000 + j * 1000000))
    kl += keylog
    qc = dict(rnd.choice(c02.configs("quick", cfg["seed"])))
    dgrams, keylog, _ = QS.build(qc, SC.ConcreteSrc({}, prefix="g%d." % cfg["i"]))
    ep = P.Endpoint(ipv=qc.get("ipv", 4), c_port=41000)
    for j, d in enumerate(dgrams):
        d.ts = (base + 500000 + j * 1024000) / 1e6
    pk += e2e.concrete_udp_frames(ep, dgrams)
    kl += keylog
    pk.sort(key=lambda x: x[1])
    # 2^-10 / 2^-20 resolutions need instants that are multiples of 1/1024 s: use a second set of times for those variants
    ktxt = e2e.keylog_text(kl)
    ref = None
    problems = []
    n = 0
    for name, v in _variants(pk).items():
        pkts = v["packets"]
        if "2^-" in name:
            # re-time on a 2^-10 s grid that is also a whole number of microseconds: multiples of 1/64 s = 15625 us
            pkts0 = [(fr, base + j * 15625 * 3) for j, (fr, t) in enumerate(pk)]
            per_s = 1024 if "10" in name else 1 << 20
            pkts = [(fr, (t * per_s) // 1000000) for fr, t in pkts0]
            r0 = e2e.run_tlexport(pkts0, ktxt)
            want = [(d.get("l4"), d.get("sport"), d.get("payload"), d["ts"][0]) for d in r0["frames"]]
        else:
            want = None
        r = e2e.run_tlexport(pkts, ktxt, capture_kw=v.get("kw"), legacy=v.get("legacy", False))
        n += 1
        got = [(d.get("l4"), d.get("sport"), d.get("payload"), d["ts"][0]) for d in r["frames"]]
        if r["problems"]:
            problems.append("%s: %s" % (name, r["problems"][:2]))
            continue
        if want is not None:
            if got != want:
                problems.append("%s: export differs from the microsecond-resolution capture of the same instants" % name)
            continue
        if ref is None:
            ref = got
            if len([g for g in got if g[2]]) < 2:
                problems.append("%s: nothing exported" % name)
        elif got != ref:
            diff = next((i for i, (a, b) in enumerate(zip(got, ref)) if a != b), min(len(got), len(ref)))
            problems.append("%s: export differs from le-epb-us at packet %d (%d vs %d packets)" % (name, diff, len(got), len(ref)))
    viol = [{"label": "files-same-export", "inputs": {"seed": cfg["seed"], "i": cfg["i"]}, "detail": problems[:5]}] if problems else []
    return {"stats": {"paths": n, "decisions": n, "queries": 0, "solver_s": 0.0, "checks": n}, "violations": viol, "sites": {"files-same-export": n}, "inconclusive": [],
            "samples": [{"path": 0, "inputs": {"variants": n, "packets": len(pk)}, "result": "identical export" if not problems else problems[0], "validate": False}]}


def run_config(cfg):
    return {"reader": _run_reader, "scale": _run_scale, "legacy": _run_legacy, "files": _run_files}[cfg["harness"]](cfg)


def replay(cfg, viol):
    h = cfg["harness"]
    inp = viol["inputs"]
    if h == "files":
        r = _run_files(cfg)
        return {"reproduced": bool(r["violations"]), "problems": r["violations"][0]["detail"] if r["violations"] else []}
    if h == "scale":
        import io
        import os
        import tempfile
        import dpkt
        from tlexport.dpkt_dsb import Reader
        from tlv.oracle import pcapng
        ticks = (inp["ts_high"] << 32) | inp["ts_low"]
        res = inp["k"] if inp["kind"] == "dec" else (0x80 | inp["k"])
        buf = io.BytesIO(pcapng.shb() + pcapng.idb(tsresol=res) + pcapng.epb(b"\x00" * 20, ticks))
        ts = [t for t, b in Reader(buf)][0]
        out = io.BytesIO()
        dpkt.pcapng.Writer(out).writepkt(b"\x00" * 20, ts)
        with tempfile.NamedTemporaryFile(delete=False, prefix="tlv-scale-") as f:
            f.write(out.getvalue())
        try:
            back = pcapng.read_capture(f.name)[0][1]
        finally:
            os.unlink(f.name)
        return {"reproduced": back != inp["microseconds"], "written_microseconds": back, "instant_microseconds": inp["microseconds"]}
    if h == "reader":
        return _replay_reader(cfg, inp)
    if h == "legacy":
        return _replay_legacy(cfg, inp)
    return {"reproduced": None}


def _replay_legacy(cfg, inp):
    """The concrete TLS 1.2 scenario as pcapng and as legacy pcap (-l) through the real program: same export."""
    from tlv import e2e
    from tlv.harness import pipeline as P
    from tlv.oracle import scenario as SC
    scfg = {"version": "TLS12", "suite": 0x009c, "suite_name": "TLS_RSA_WITH_AES_128_GCM_SHA256", "records": 2, "max_len": 1, "min_len": 1, "grouping": "one"}
    items, keylog, _ = SC.build(scfg, SC.ConcreteSrc(inp))
    pk = e2e.concrete_frames(P.Endpoint(ipv=4), items)
    kt = e2e.keylog_text(keylog)
    a = e2e.run_tlexport(pk, kt)
    b = e2e.run_tlexport(pk, kt, legacy=dict(nano=True) if cfg.get("nano") else True)
    problems = list(a["problems"][:2]) + list(b["problems"][:2])
    fa = [(d.get("l4"), d.get("sport"), d.get("payload"), d["ts"][0]) for d in a["frames"]]
    fb = [(d.get("l4"), d.get("sport"), d.get("payload"), d["ts"][0]) for d in b["frames"]]
    if not problems and fa != fb:
        problems.append("export of the legacy pcap differs from the pcapng export (%d vs %d packets)" % (len(fb), len(fa)))
    return {"reproduced": bool(problems), "problems": problems}


def _replay_reader(cfg, inp):
    """Real Reader on a real file with the layout and field values of the counterexample."""
    import io
    from tlexport.dpkt_dsb import Reader
    from tlv.oracle import pcapng
    e = "<" if cfg["le"] else ">"
    res = inp.get("if_tsresol", 6) & 0xFF
    off = inp.get("if_tsoffset", 0)
    raw = [pcapng.shb(e), pcapng.idb(e, tsresol=res, tsoffset=off)]
    want = []
    for i, kind in enumerate(cfg["layout"]):
        if kind in ("epb", "pb"):
            ticks = (inp.get("hi%d" % i, 0) << 32) | inp.get("lo%d" % i, 0)
            data = bytes([i]) * 20
            raw.append((pcapng.epb if kind == "epb" else pcapng.pb)(data, ticks, e))
            k = res & 0x7f
            div = float((2 if res & 0x80 else 10) ** k)
            want.append((off + ticks / div, data))
        elif kind == "dsb":
            raw.append(pcapng.dsb(b"CLIENT_RANDOM aa bb\n", e))
            want.append((-1, b"CLIENT_RANDOM aa bb\n"))
        elif kind == "dsb<idb":
            raw.insert(1, pcapng.dsb(b"CLIENT_RANDOM cc dd\n", e))
            want.append((-1, b"CLIENT_RANDOM cc dd\n"))
        else:
            ln = [12, 32][inp.get("foreign_len%d" % i, 0)]
            blk = pcapng.other_block(inp.get("foreign_type%d" % i, 5), b"\x00" * (ln - 12), e)
            if kind == "foreign<idb":
                raw.insert(1, blk)
            else:
                raw.append(blk)
    try:
        got = [(t, bytes(b)) for t, b in Reader(io.BytesIO(b"".join(raw)))]
    except Exception as ex:
        return {"reproduced": True, "problems": ["exception %s: %s" % (type(ex).__name__, ex)]}
    return {"reproduced": got != want, "yielded": len(got), "expected": len(want)}


def validate(cfg, sample):
    return {"agree": True}
