"""Driver for tlexport.main.run() under symbolic execution: real arg_parser_init/get_port_map/run; the capture reader, the file
system and the pcapng writer are stubs."""
import sys


class FakeFile:
    def __init__(self, name, content=None, mode="r"):
        self.name, self.content, self.mode, self.closed = name, content, mode, False
        self.written = []

    def read(self, *a):
        return self.content

    def write(self, b):
        self.written.append(b)

    def close(self):
        self.closed = True

    def __enter__(self):
        return self

    def __exit__(self, *a):
        self.close()


class RunEnv:
    def __init__(self, mods, blocks, files=None, exists=None, legacy_blocks=None, environ=None):
        """blocks: list of (ts, buf) as the pcapng reader would yield them (ts == -1 marks a DSB with buf = secrets text bytes).
        files: path -> text content of readable files; exists: path -> bool | SymBool (defaults to `path in files`)."""
        self.mods, self.blocks, self.files = mods, blocks, files or {}
        self.exists = exists or (lambda p: p in self.files)
        self.legacy_blocks = legacy_blocks
        self.environ = dict(environ or {})          # what the process environment holds, as far as the program can see it
        self.written = []
        self.opened = []
        self.reader_kind = None

    def install(self):
        env = self
        main = self.mods["tlexport.main"]
        klr = self.mods["tlexport.keylog_reader"]

        def fake_open(path, mode="r", *a, **k):
            env.opened.append((path, mode))
            if "w" in mode:
                return FakeFile(path, None, mode)
            if path in env.files:
                return FakeFile(path, env.files[path], mode)
            if mode == "rb":
                return FakeFile(path, b"", mode)      # the capture itself: content is provided through the reader stub
            raise FileNotFoundError(2, "No such file or directory", path)

        class OsPath:
            @staticmethod
            def exists(p):
                return env.exists(p)

        import os as real_os

        class Os:
            path = OsPath
            environ = env.environ

            @staticmethod
            def getenv(name, default=None):
                return env.environ.get(name, default)

            def __getattr__(self, name):
                return getattr(real_os, name)
        Os = Os()

        class NgReader:
            def __init__(self, f):
                env.reader_kind = "pcapng"

            def __iter__(self):
                return iter(env.blocks)

        class LegacyReader:
            def __init__(self, f):
                env.reader_kind = "pcap"

            def __iter__(self):
                return iter(env.legacy_blocks if env.legacy_blocks is not None else [b for b in env.blocks if not (isinstance(b[0], int) and b[0] == -1)])

        class Writer:
            def __init__(self, f, snaplen=None, **kw):
                self.f = f
                env.writer_args = {"snaplen": snaplen}

            def writepkt(self, pkt, ts=None):
                import decimal
                if isinstance(ts, decimal.Decimal):       # dpkt: intround(ts * 1e6)
                    raise TypeError("unsupported operand type(s) for *: 'decimal.Decimal' and 'float'")
                env.written.append((pkt, ts))

        class NS:
            pass
        d = NS()
        d.pcap = NS()
        d.pcap.Reader = LegacyReader
        d.pcapng = NS()
        d.pcapng.Writer = Writer
        main.open = fake_open
        main.dpkt = d
        main.Reader = NgReader
        klr.open = fake_open
        klr.os = Os
        for m in self.mods.values():
            if getattr(m, "os", None) is not None and m is not klr:
                m.os = Os
            if "environ" in vars(m):
                m.environ = env.environ
            if "getenv" in vars(m):
                m.getenv = Os.getenv
        klr.exit = _exit
        main.set_logger = lambda args: None


class ExitCalled(Exception):
    """exit() inside the program (turned into an ordinary exception so that harnesses see it as a failed run)."""


def _exit(*a):
    raise ExitCalled(*a)


def run_main(mods, argv, env, reset_globals=True):
    """-> list of (frame, ts) handed to the writer."""
    main = mods["tlexport.main"]
    if reset_globals:
        main.server_ports[:] = [443, 44330]
        del main.keylog[:]
        del main.sessions[:]
        del main.quic_sessions[:]
    env.install()
    old = sys.argv
    sys.argv = ["tlexport"] + list(argv)
    try:
        main.run()
    finally:
        sys.argv = old
    return env.written
