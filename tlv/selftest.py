"""Differential validation of the proxies and shims against native CPython (run by every check in quick form)."""
import random
import sys


def symint_ops(n_cases=300, seed=1):
    from tlv.sx.core import explore, sym_int, ctx, SymInt, SymBool
    import operator as op
    rnd = random.Random(seed)
    ops = [("add", op.add), ("sub", op.sub), ("mul", op.mul), ("floordiv", op.floordiv), ("mod", op.mod), ("and", op.and_),
           ("or", op.or_), ("xor", op.xor), ("lshift", op.lshift), ("rshift", op.rshift), ("lt", op.lt), ("le", op.le),
           ("eq", op.eq), ("ne", op.ne), ("gt", op.gt), ("ge", op.ge)]
    cases = []
    for _ in range(n_cases):
        name, f = rnd.choice(ops)
        wa, wb = rnd.choice([3, 8, 16, 33, 62]), rnd.choice([2, 8, 16, 33])
        sa, sb = rnd.random() < 0.4, rnd.random() < 0.3
        a = rnd.getrandbits(wa) - ((1 << (wa - 1)) if sa else 0)
        b = rnd.getrandbits(wb) - ((1 << (wb - 1)) if sb else 0)
        if name in ("lshift", "rshift"):
            b = rnd.randrange(0, 20)
            sb, wb = False, 5
        if name == "mul":
            wa, wb = min(wa, 33), min(wb, 16)
            a = rnd.getrandbits(wa) - ((1 << (wa - 1)) if sa else 0)
            b = rnd.getrandbits(wb) - ((1 << (wb - 1)) if sb else 0)
        cases.append((name, f, wa, sa, a, wb, sb, b, rnd.random() < 0.3))
    bad = []

    def run():
        c = ctx()
        for i, (name, f, wa, sa, a, wb, sb, b, bconc) in enumerate(cases):
            lo_a, hi_a = (-(1 << (wa - 1)), (1 << (wa - 1)) - 1) if sa else (0, (1 << wa) - 1)
            lo_b, hi_b = (-(1 << (wb - 1)), (1 << (wb - 1)) - 1) if sb else (0, (1 << wb) - 1)
            x = sym_int("a%d" % i, lo_a, hi_a)
            y = b if bconc else sym_int("b%d" % i, lo_b, hi_b)
            try:
                want = f(a, b)
            except ZeroDivisionError:
                continue
            c.solver.push()
            c.solver.add(x.n == a)
            if not bconc:
                c.solver.add(y.n == b)
            try:
                if name in ("floordiv", "mod") and not bconc:
                    c.solver.add(y.n != 0)
                    # avoid the fork inside _divmod: lift with an interval excluding zero is not possible; use concrete b
                    r = f(x, b)
                else:
                    r = f(x, y)
                if isinstance(r, SymInt):
                    ok = c._check(r.n != want) is False and r.lo <= want <= r.hi
                elif isinstance(r, SymBool):
                    ok = c._check(r.t != want) is False
                else:
                    ok = (r == want)
                if not ok:
                    bad.append((name, a, b, want, repr(r)))
            finally:
                c.solver.pop()
        return None
    explore(run)
    return bad


def shims_identity():
    """The shims are the identity on concrete values."""
    from tlv.sx import shims
    S = shims
    checks = []
    for args in [(b"\x01\x02", "big"), (b"", "big"), (bytearray(b"\xff" * 9), "big"), (b"\x01\x02\x03", "little")]:
        checks.append(S.IntShim.from_bytes(*args) == int.from_bytes(*args))
    checks.append(S.IntShim("00110000", 2) == 48)
    checks.append(S.IntShim(7) == 7 and S.IntShim.to_bytes(258, 2, "big") == b"\x01\x02")
    checks.append(S.BytesShim(3) == b"\0\0\0" and S.BytesShim([1, 2]) == b"\x01\x02" and S.BytesShim(bytearray(b"ab")) == b"ab")
    checks.append(S.BytesShim.fromhex("0a0b") == b"\x0a\x0b")
    ba = S.ByteArrayShim(b"ab")
    ba.extend(b"cd")
    ba.append(1)
    ba[0:2] = b"zz"
    checks.append(ba == bytearray(b"zzcd\x01") and len(ba) == 5 and ba[1:3] == b"zc")
    checks.append(list(S.RangeShim(0, 6, 2)) == [0, 2, 4])
    import struct
    buf = bytes(range(20))
    for fmt in ("B4sB", "B4sB3ss", "B0s2s"):
        from tlv.sx.symbytes import SymBytes
        got = S.StructShim.unpack_from(fmt, SymBytes(list(buf)))
        checks.append(tuple(bytes(g.e) if hasattr(g, "e") else g for g in got) == struct.unpack_from(fmt, buf))
    checks.append(S.floor_shim(7 / 2) == 3)
    return [i for i, ok in enumerate(checks) if not ok]


def main():
    bad = symint_ops()
    bad2 = shims_identity()
    if bad or bad2:
        print("SELFTEST FAILED", bad[:5], bad2)
        return 1
    print("selftest ok")
    return 0


if __name__ == "__main__":
    sys.path.insert(0, "/verif")
    sys.exit(main())
