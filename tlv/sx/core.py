"""sx core: path exploration by re-execution, SymBool / SymInt proxies over z3 bit-vectors.

The code under test runs natively in CPython; only values are symbolic.  The single place where
a path forks is SymBool.__bool__ (-> Ctx.decide).  Exploration is depth-first: a path is a list
of boolean decisions; after a path ends, the deepest decision whose other side is feasible and
unexplored is flipped and the scenario function is executed again with that prefix.
"""
import os
import subprocess
import time
import z3

XCHECK_BIN = "/usr/bin/z3"  # z3 4.8.12 (Debian); the exploration uses the z3-solver 5.1 wheel
XCHECK_TIMEOUT_S = 20

W = 96  # width of every SymInt bit-vector; magnitudes are tracked so that wrap-around never happens silently
_MAXMAG = 1 << (W - 2)


class SxControl(BaseException):
    """Engine control flow; derives from BaseException so `except Exception` in the code under test lets it pass."""

    def __init__(self, *a):
        super().__init__(*a)
        c = CUR[0]
        if c is not None:
            c.sticky = self  # survives a bare `except:` in the code under test


class PathInfeasible(SxControl):
    pass


class Unsupported(SxControl):
    pass


class WidthExceeded(SxControl):
    pass


class BudgetExceeded(SxControl):
    pass


class SolverUnknown(SxControl):
    pass


class NonDeterminism(SxControl):
    pass


CUR = [None]

_SIMP = {}


def simp(t):
    """z3.simplify with a cache keyed by AST id (re-execution rebuilds the same terms on every path)."""
    k = t.get_id()
    r = _SIMP.get(k)
    if r is None:
        r = (t, z3.simplify(t))
        if len(_SIMP) > 2000000:
            _SIMP.clear()
        _SIMP[k] = r
    return r[1]


def ctx():
    c = CUR[0]
    if c is None:
        raise RuntimeError("no active sx context")
    return c


class Decision:
    __slots__ = ("taken", "other_feasible", "other_done", "ast_id", "term", "other_model", "hint")

    def __init__(self, taken, other_feasible, term, other_model, hint=None):
        self.hint = hint
        self.taken = taken
        self.other_feasible = other_feasible
        self.other_done = False
        self.term = term
        self.ast_id = term.get_id()
        self.other_model = other_model


class Stats:
    def __init__(self):
        self.paths = 0
        self.decisions = 0
        self.queries = 0
        self.solver_s = 0.0
        self.unknown = 0
        self.realised = 0
        self.width_exceeded = 0
        self.infeasible = 0
        self.budget = 0
        self.checks = 0
        self.xcheck_agree = 0
        self.xcheck_unknown = 0
        self.xcheck_disagree = 0
        self.xcheck_s = 0.0

    def as_dict(self):
        return dict(self.__dict__)


class Violation:
    def __init__(self, label, inputs, detail=None, path=None):
        self.label = label
        self.inputs = inputs
        self.detail = detail
        self.path = path

    def as_dict(self):
        return {"label": self.label, "inputs": self.inputs, "detail": self.detail}


class Ctx:
    def __init__(self, timeout_ms=60000, max_decisions=20000, max_paths=200000, max_concretise=300, strategy="incremental"):
        self.solver = z3.Solver()
        self.solver.set("timeout", timeout_ms)
        self.timeout_ms = timeout_ms
        self.strategy = strategy
        self.auto_ms = 1500
        self.has_uf = False
        self._last_model = None
        self.decisions = []  # list[Decision] of the current path
        self.pos = 0
        self.frozen_until = -1
        self.model = None
        self.stats = Stats()
        self.fresh_n = 0
        self.inputs = {}  # name -> (kind, z3 term(s))
        self.sticky = None
        self.violations = []
        self.max_decisions = max_decisions
        self.max_paths = max_paths
        self.max_concretise = max_concretise
        self.sites = {}  # assertion label -> number of feasible paths on which it was evaluated
        self.path_log = []
        self.notes = {}
        self.ufs = {}
        self.samples = []
        self.path_data = {}  # scratch area cleared at each path start
        self.diversify_models = True
        self._violation_constraint = None

    # ---- solver helpers ------------------------------------------------------------------
    def _check(self, *extra):
        """sat? of path condition + extra.  The model of a sat answer is kept in self._last_model.
        strategy 'incremental': one solver with push/pop; 'oneshot': a fresh SAT-based QF_BV solver per query (much faster on
        arithmetic-heavy conditions); 'auto': incremental with a short timeout, then oneshot."""
        t0 = time.time()
        self.stats.queries += 1
        self._last_model = None
        try:
            if self.strategy == "incremental":
                r = self.solver.check(*extra)
                why = self.solver.reason_unknown() if r == z3.unknown else ""
                if r == z3.sat:
                    self._last_model = self.solver.model()
            else:
                r = z3.unknown
                if self.strategy == "auto":
                    self.solver.set("timeout", self.auto_ms)
                    r = self.solver.check(*extra)
                    self.solver.set("timeout", self.timeout_ms)
                    if r == z3.sat:
                        self._last_model = self.solver.model()
                if r == z3.unknown:
                    s2 = z3.Tactic("qfbv").solver() if not self.has_uf else z3.Tactic("qfaufbv").solver()
                    s2.set("timeout", self.timeout_ms)
                    s2.add(self.solver.assertions())
                    s2.add(*extra)
                    r = s2.check()
                    why = s2.reason_unknown() if r == z3.unknown else ""
                    if r == z3.sat:
                        self._last_model = s2.model()
        finally:
            self.stats.solver_s += time.time() - t0
        if r == z3.unknown:
            self.stats.unknown += 1
            raise SolverUnknown(why)
        return r == z3.sat

    def get_model(self):
        if self.model is None:
            if not self._check():
                raise PathInfeasible("path condition unsat")
            self.model = self._last_model
        return self.model

    def model_int(self, term):
        m = self.get_model()
        v = m.eval(term, model_completion=True)
        if z3.is_bv(v):
            x = v.as_long()
            n = v.size()
            return x
        if z3.is_true(v):
            return True
        if z3.is_false(v):
            return False
        raise Unsupported("model value " + str(v))

    # ---- decisions -----------------------------------------------------------------------
    def peek_hint(self):
        """While re-executing a recorded prefix: the value a concretisation chose at this point the first time."""
        if self.pos < len(self.decisions):
            return self.decisions[self.pos].hint
        return None

    def decide(self, t, hint=None):
        """t: z3 BoolRef.  Returns the Python bool chosen on this path."""
        t = simp(t)
        if z3.is_true(t):
            return True
        if z3.is_false(t):
            return False
        i = self.pos
        if i >= self.max_decisions:
            self.stats.budget += 1
            raise BudgetExceeded("decisions per path")
        if i < len(self.decisions):
            d = self.decisions[i]
            if d.ast_id != t.get_id():
                raise NonDeterminism("decision %d differs on re-execution: %s vs %s" % (i, d.term, t))
            self.pos += 1
            if i < self.frozen_until:
                return d.taken
            # the flipped decision: constraints not yet in the solver
            self.solver.push()
            self.solver.add(t if d.taken else z3.Not(t))
            return d.taken
        self.stats.decisions += 1
        m = self.model
        side = None
        if m is not None:
            v = m.eval(t, model_completion=True)
            if z3.is_true(v):
                side = True
            elif z3.is_false(v):
                side = False
        other_model = None
        if side is None:
            if self._check(t):
                side = True
                self.model = self._last_model
            else:
                side = False
                self.model = None
                # the path condition itself is feasible (invariant), so the False side is
                d = Decision(False, False, t, None, hint)
                self.decisions.append(d)
                self.pos += 1
                self.solver.push()
                self.solver.add(z3.Not(t))
                return False
        other = z3.Not(t) if side else t
        of = self._check(other)
        if of:
            other_model = self._last_model
        d = Decision(side, of, t, other_model, hint)
        self.decisions.append(d)
        self.pos += 1
        self.solver.push()
        self.solver.add(t if side else z3.Not(t))
        return side

    def replaying(self):
        return self.pos <= self.frozen_until

    def define(self, key, term):
        """Name a term by a variable (shared per path by key) so that the simplifier cannot rewrite its uses apart."""
        d = self.path_data.setdefault("defs", {})
        v = d.get(key)
        if v is None:
            v = z3.BitVec(self.fresh_name("def"), term.size())
            d[key] = v
            if not self.replaying():
                self.solver.add(v == term)
            self.model = None   # the cached model does not interpret the new variable
        return v

    def assume(self, t):
        if isinstance(t, bool):
            if not t:
                raise PathInfeasible("assume False")
            return
        if isinstance(t, SymBool):
            t = t.t
        if self.replaying():
            return
        self.solver.add(t)
        if self.model is not None:
            v = self.model.eval(t, model_completion=True)
            if z3.is_true(v):
                return
        self.model = None
        if not self._check():
            self.stats.infeasible += 1
            raise PathInfeasible("assumption unsat")
        self.model = self._last_model

    def check(self, cond, label, detail=None):
        """Assertion: is there a value on this path with cond false?  Does not fork."""
        self.stats.checks += 1
        if not self.replaying():
            self.sites[label] = self.sites.get(label, 0) + 1
        if isinstance(cond, SymBool):
            cond = cond.t
        if isinstance(cond, bool):
            if cond:
                return True
            if self.replaying():
                return False
            self._violation(label, self.get_model(), detail)
            return False
        if self.replaying():
            return True
        t = simp(cond)
        if z3.is_true(t):
            return True
        if self._check(z3.Not(t)):
            m = self._last_model
            self._violation_constraint = z3.Not(t)
            try:
                self._violation(label, m, detail)
            finally:
                self._violation_constraint = None
            return False
        self._cross_check(z3.Not(t), label)
        return True

    def _cross_check(self, negated, label):
        """Second opinion on an 'assertion holds on this path' verdict (unsat): the same query, printed as SMT-LIB2, is decided by the
        independent z3 4.8.12 binary (/usr/bin/z3; another code base than the 5.1 library used for exploration).  Sampled: the first
        TLV_XCHECK assertion queries per label and configuration.  'sat' from the second solver, or an '(error' line, makes the
        configuration inconclusive; its timeout / unknown is counted and claims nothing."""
        n = int(os.environ.get("TLV_XCHECK", "2"))
        done = self.notes.setdefault("_xcheck_done", {})
        if n <= 0 or done.get(label, 0) >= n or not os.path.exists(XCHECK_BIN):
            return
        done[label] = done.get(label, 0) + 1
        t0 = time.time()
        try:
            s2 = z3.Solver()
            s2.add(self.solver.assertions())
            s2.add(negated)
            text = s2.to_smt2()
            try:
                out = subprocess.run([XCHECK_BIN, "-in", "-T:%d" % XCHECK_TIMEOUT_S], input=text, capture_output=True, text=True,
                                     timeout=XCHECK_TIMEOUT_S + 10).stdout
            except subprocess.TimeoutExpired:
                out = "timeout"
        finally:
            self.stats.xcheck_s += time.time() - t0
        lines = [l.strip() for l in out.splitlines() if l.strip()]
        if any(l.startswith("(error") for l in lines) or "sat" in lines:
            self.stats.xcheck_disagree += 1
        if any(l.startswith("(error") for l in lines):
            raise SolverUnknown("second solver (z3 4.8.12) rejected the query for %s: %s" % (label, lines[0][:200]))
        if "sat" in lines:
            raise SolverUnknown("solvers disagree on assertion %s: z3 5.1 unsat, z3 4.8.12 sat" % label)
        if "unsat" in lines:
            self.stats.xcheck_agree += 1
        else:
            self.stats.xcheck_unknown += 1

    def fail(self, label, detail=None):
        return self.check(False, label, detail)

    def known(self, label, detail=None, witness=None):
        """The path shows a defect listed in known_findings.jsonl: record one witness per exploration (it is replayed like any
        counterexample and printed as KNOWN-FINDING); the caller skips its assertions on this path."""
        label = "kf:" + label
        self.notes[label] = self.notes.get(label, 0) + (0 if self.replaying() else 1)
        if self.replaying() or any(v.label == label for v in self.violations):
            return
        model = None
        if witness is not None and self._check(witness):
            model = self._last_model       # inputs on which the defect actually shows
        self._violation_constraint = witness
        try:
            self._violation(label, model or self.get_model(), detail)
        finally:
            self._violation_constraint = None

    def diversify(self, base_constraint=None):
        """Best effort: a model of the current path (and base_constraint) in which the symbolic input bytes take distinct, non-zero
        pseudo-random values wherever the path allows it - structural counterexamples with all-zero data often do not show on the
        real program (equal bytes hide a reordering, a zero tick hides a wrong divisor)."""
        import hashlib
        self.solver.push()
        try:
            if base_constraint is not None:
                self.solver.add(base_constraint)
            if not self._check():
                return None
            best = self._last_model
            for name, (kind, term) in self.inputs.items():
                cons = []
                if kind == "bytes":
                    for i, e in enumerate(term):
                        if not isinstance(e, int):
                            v = hashlib.sha256(("%s/%d" % (name, i)).encode()).digest()[0] or 0x5a
                            cons.append(e == v)
                elif kind == "int" and term.size() >= 8:
                    v = int.from_bytes(hashlib.sha256(name.encode()).digest()[:8], "big") % (1 << (term.size() - 1)) or 1
                    cons.append(term == v)
                if not cons:
                    continue
                self.solver.push()
                self.solver.add(*cons)
                if self._check():
                    best = self._last_model
                    # keep the constraint for the following inputs
                    self.solver.pop()
                    self.solver.add(*cons)
                else:
                    self.solver.pop()
            return best
        except SolverUnknown:
            return None
        finally:
            self.solver.pop()

    def _violation(self, label, model, detail):
        if self.diversify_models:
            try:
                better = self.diversify(self._violation_constraint)
            except SxControl:
                better = None
            if better is not None:
                model = better
        inputs = self.concretise_inputs(model)
        if callable(detail):
            try:
                detail = detail(model)
            except Exception as e:  # pragma: no cover
                detail = "detail failed: %r" % (e,)
        self.violations.append(Violation(label, inputs, detail, [d.taken for d in self.decisions[:self.pos]]))

    def concretise_inputs(self, model):
        out = {}
        for name, (kind, term) in self.inputs.items():
            if kind == "int":
                v = model.eval(term, model_completion=True)
                x = v.as_long()
                if x >= 1 << (term.size() - 1) and self.input_signed.get(name):
                    x -= 1 << term.size()
                out[name] = x
            elif kind == "bool":
                out[name] = bool(z3.is_true(model.eval(term, model_completion=True)))
            elif kind == "bytes":
                bs = []
                for e in term:
                    if isinstance(e, int):
                        bs.append(e)
                    else:
                        bs.append(model.eval(e, model_completion=True).as_long())
                out[name] = bytes(bs).hex()
            elif kind == "const":
                out[name] = term
        return out

    input_signed = {}

    # ---- symbols -------------------------------------------------------------------------
    def fresh_name(self, prefix):
        self.fresh_n += 1
        return "%s!%d" % (prefix, self.fresh_n)

    def uf(self, name, *sig):
        k = (name,) + tuple(str(s) for s in sig)
        f = self.ufs.get(k)
        if f is None:
            f = z3.Function(name, *sig)
            self.ufs[k] = f
            self.has_uf = True
        return f


class SymBool:
    __slots__ = ("t",)

    def __init__(self, t):
        self.t = t

    def __bool__(self):
        return ctx().decide(self.t)

    def __and__(self, o):
        o = _tobool(o)
        return mk_bool(z3.And(self.t, o))

    __rand__ = __and__

    def __or__(self, o):
        o = _tobool(o)
        return mk_bool(z3.Or(self.t, o))

    __ror__ = __or__

    def __invert__(self):
        return mk_bool(z3.Not(self.t))

    def __eq__(self, o):
        if isinstance(o, (bool, SymBool)):
            return mk_bool(self.t == _tobool(o))
        if isinstance(o, int):
            return mk_bool(z3.If(self.t, 1, 0) == o)
        return NotImplemented

    def __ne__(self, o):
        r = self.__eq__(o)
        if r is NotImplemented:
            return r
        return ~r if isinstance(r, SymBool) else (not r)

    def __hash__(self):
        return hash(bool(self))

    def __int__(self):
        return 1 if bool(self) else 0

    __index__ = __int__

    def __repr__(self):
        return "<symbool>"

    def __format__(self, spec):
        return "<symbool>"


def _tobool(o):
    if isinstance(o, SymBool):
        return o.t
    if isinstance(o, bool):
        return z3.BoolVal(o)
    raise Unsupported("bool op with %r" % type(o))


def mk_bool(t):
    t = simp(t)
    if z3.is_true(t):
        return True
    if z3.is_false(t):
        return False
    return SymBool(t)


def sym_not(x):
    if isinstance(x, SymBool):
        return ~x
    return not x


def sym_and(*xs):
    ts = []
    for x in xs:
        if isinstance(x, SymBool):
            ts.append(x.t)
        elif not x:
            return False
    if not ts:
        return True
    return mk_bool(z3.And(*ts))


def sym_or(*xs):
    ts = []
    for x in xs:
        if isinstance(x, SymBool):
            ts.append(x.t)
        elif x:
            return True
    if not ts:
        return False
    return mk_bool(z3.Or(*ts))


def implies(a, b):
    return sym_or(sym_not(a), b)


# ------------------------------------------------------------------------------------------
# SymInt


def _bv(v, w=None):
    return z3.BitVecVal(v, W if w is None else w)


def _bitlen_bound(lo, hi):
    return max(abs(lo), abs(hi)).bit_length()


def _width_for(lo, hi):
    """Minimal width and signedness holding every value of [lo, hi]."""
    if lo >= 0:
        return max(1, hi.bit_length()), False
    return max((-lo - 1).bit_length(), hi.bit_length()) + 1, True


def _resize(t, signed, k):
    """Value-preserving when k is large enough for the value; otherwise the low k bits."""
    w = t.size()
    if w == k:
        return t
    if w > k:
        return z3.Extract(k - 1, 0, t)
    return z3.SignExt(k - w, t) if signed else z3.ZeroExt(k - w, t)


class SymInt:
    """Python int semantics over a bit-vector of minimal width for the tracked interval [lo, hi].
    n: z3 term of width w; read as signed iff lo < 0.  The interval is conservative, so modular arithmetic at the
    result's width is exact; an interval beyond 2^(W-2) raises WidthExceeded."""
    __slots__ = ("_n", "lo", "hi", "signed", "lin")

    def __init__(self, t, lo, hi, lin=None):
        if lo < -_MAXMAG or hi > _MAXMAG:
            c = CUR[0]
            if c is not None:
                c.stats.width_exceeded += 1
            raise WidthExceeded("magnitude [%d, %d] exceeds width %d" % (lo, hi, W))
        k, s = _width_for(lo, hi)
        # t may be wider (legacy W-bit terms) or narrower; its own reading is by the same signedness
        self._n = None if t is None else (_resize(t, s, k) if t.size() != k else t)
        self.lo = lo
        self.hi = hi
        self.signed = s
        # lin: None for an atom, else (const, ((atom_id, coeff, atom), ...)) - a linear combination kept symbolic so that
        # sums are materialised in one canonical order whatever order the code under test added them in
        self.lin = lin

    @property
    def n(self):
        if self._n is None:
            const, terms = self.lin
            k = self.n_width()
            acc = None
            for _, coeff, atom in terms:
                x = _resize(atom.n, atom.signed, k)
                if coeff != 1:
                    x = x * z3.BitVecVal(coeff, k)
                acc = x if acc is None else acc + x
            if const != 0 or acc is None:
                cv = z3.BitVecVal(const, k)
                acc = cv if acc is None else acc + cv
            if len(terms) >= 3 and CUR[0] is not None:
                acc = CUR[0].define(("lin", const, tuple((a, cf) for a, cf, _ in terms), k), acc)
            self._n = acc
        return self._n

    @n.setter
    def n(self, v):
        self._n = v

    def n_width(self):
        return _width_for(self.lo, self.hi)[0]

    def _lin(self):
        """(const, {atom_id: (coeff, atom)})"""
        if self.lin is not None:
            return self.lin[0], {a: (c, at) for a, c, at in self.lin[1]}
        return 0, {self._n.get_id(): (1, self)}

    @staticmethod
    def _from_lin(const, terms, lo, hi):
        terms = {a: ca for a, ca in terms.items() if ca[0] != 0}
        if not terms:
            return const
        if lo < -_MAXMAG or hi > _MAXMAG:
            c = CUR[0]
            if c is not None:
                c.stats.width_exceeded += 1
            raise WidthExceeded("magnitude [%d, %d] exceeds width %d" % (lo, hi, W))
        if lo == hi:
            return lo
        if len(terms) == 1 and const == 0:
            (a, (cf, at)), = terms.items()
            if cf == 1:
                if at.lo >= lo and at.hi <= hi:
                    return at
        tt = tuple(sorted(((a, cf, at) for a, (cf, at) in terms.items()), key=lambda x: x[0]))
        return SymInt(None, lo, hi, lin=(const, tt))

    @staticmethod
    def _lin_add(a, b, sign, lo, hi):
        ca, ta = a._lin()
        cb, tb = b._lin()
        out = dict(ta)
        for k, (cf, at) in tb.items():
            if k in out:
                out[k] = (out[k][0] + sign * cf, at)
            else:
                out[k] = (sign * cf, at)
        return SymInt._from_lin(ca + sign * cb, out, lo, hi)

    @property
    def t(self):
        """W-bit signed view (for code that mixes values of different widths)."""
        return _resize(self.n, self.signed, W)

    def at(self, k, signed=None):
        """k-bit view; exact if k is wide enough for [lo, hi] under the requested reading, else low bits."""
        return _resize(self.n, self.signed, k)

    def swidth(self):
        """width needed to hold the value as a signed vector"""
        return self.n.size() + (0 if self.signed else 1)

    # -- construction helpers
    @staticmethod
    def mk(t, lo, hi):
        if lo == hi:
            return lo
        x = SymInt(t, lo, hi)
        n = simp(x._n)
        if z3.is_bv_value(n):
            return n.as_signed_long() if x.signed else n.as_long()
        x._n = n
        return x

    @staticmethod
    def coerce(o):
        """-> (W-bit term, lo, hi) or None   (legacy helper)"""
        c = SymInt.lift(o)
        if c is None:
            return None
        return c.t, c.lo, c.hi

    @staticmethod
    def lift(o):
        if isinstance(o, SymInt):
            return o
        if isinstance(o, bool):
            o = int(o)
        if isinstance(o, int):
            if abs(o) > _MAXMAG:
                raise WidthExceeded("constant %d" % o)
            return SymInt(None, o, o, lin=(o, ()))
        if isinstance(o, SymBool):
            return SymInt(z3.If(o.t, z3.BitVecVal(1, 1), z3.BitVecVal(0, 1)), 0, 1)
        return None

    @staticmethod
    def _arith(a, b, fn, lo, hi):
        if lo < -_MAXMAG or hi > _MAXMAG:
            c = CUR[0]
            if c is not None:
                c.stats.width_exceeded += 1
            raise WidthExceeded("magnitude [%d, %d] exceeds width %d" % (lo, hi, W))
        if lo == hi:
            return lo
        k, _ = _width_for(lo, hi)
        return SymInt.mk(fn(a.at(k), b.at(k)), lo, hi)

    # -- arithmetic
    def __add__(self, o):
        from .symfloat import SymFloat
        if isinstance(o, (float, SymFloat)):
            return SymFloat.from_int(self) + o
        c = SymInt.lift(o)
        if c is None:
            return NotImplemented
        return SymInt._lin_add(self, c, 1, self.lo + c.lo, self.hi + c.hi)

    __radd__ = __add__

    def __sub__(self, o):
        from .symfloat import SymFloat
        if isinstance(o, (float, SymFloat)):
            return SymFloat.from_int(self) - o
        c = SymInt.lift(o)
        if c is None:
            return NotImplemented
        return SymInt._lin_add(self, c, -1, self.lo - c.hi, self.hi - c.lo)

    def __rsub__(self, o):
        from .symfloat import SymFloat
        if isinstance(o, (float, SymFloat)):
            return o - SymFloat.from_int(self)
        c = SymInt.lift(o)
        if c is None:
            return NotImplemented
        return SymInt._lin_add(c, self, -1, c.lo - self.hi, c.hi - self.lo)

    def __neg__(self):
        return SymInt._lin_add(SymInt.lift(0), self, -1, -self.hi, -self.lo)

    def __pos__(self):
        return self

    def __abs__(self):
        if self.lo >= 0:
            return self
        return sym_ite(self < 0, -self, self)

    def __mul__(self, o):
        from .symfloat import SymFloat
        if isinstance(o, (float, SymFloat)):
            return SymFloat.from_int(self) * o
        if isinstance(o, (bytes, bytearray, str, list, tuple)):
            return o * int(self)
        c = SymInt.lift(o)
        if c is None:
            return NotImplemented
        ps = [self.lo * c.lo, self.lo * c.hi, self.hi * c.lo, self.hi * c.hi]
        if c.lo == c.hi:
            k0 = c.lo
            cst, terms = self._lin()
            return SymInt._from_lin(cst * k0, {a: (cf * k0, at) for a, (cf, at) in terms.items()}, min(ps), max(ps))
        return SymInt._arith(self, c, lambda x, y: x * y, min(ps), max(ps))

    __rmul__ = __mul__

    @staticmethod
    def _divmod(a, b):
        """Python floor division and modulo; a, b SymInt (lifted)."""
        blo, bhi = b.lo, b.hi
        if blo <= 0 <= bhi:
            if blo == bhi:
                raise ZeroDivisionError("integer division or modulo by zero")
            if ctx().decide(b.n == 0):
                raise ZeroDivisionError("integer division or modulo by zero")
            if bhi == 0:
                bhi = -1
            if blo == 0:
                blo = 1
        if a.lo >= 0 and blo > 0:
            k = max(a.n.size(), b.n.size())
            at, bt = a.at(k), b.at(k)
            q = SymInt.mk(z3.UDiv(at, bt), a.lo // bhi, a.hi // blo)
            r = SymInt.mk(z3.URem(at, bt), 0, min(a.hi, bhi - 1))
            return q, r
        k = max(a.swidth(), b.swidth()) + 1
        at, bt = a.at(k), b.at(k)
        q0 = at / bt  # signed, truncating
        r0 = z3.SRem(at, bt)
        adj = z3.And(r0 != 0, (r0 < 0) != (bt < 0))
        mag = max(abs(a.lo), abs(a.hi)) + 1
        bm = max(abs(blo), abs(bhi))
        q = SymInt.mk(z3.If(adj, q0 - 1, q0), -mag, mag)
        r = SymInt.mk(z3.If(adj, r0 + bt, r0), -bm, bm)
        return q, r

    def __floordiv__(self, o):
        c = SymInt.lift(o)
        if c is None:
            return NotImplemented
        return SymInt._divmod(self, c)[0]

    def __rfloordiv__(self, o):
        c = SymInt.lift(o)
        if c is None:
            return NotImplemented
        return SymInt._divmod(c, self)[0]

    def __mod__(self, o):
        c = SymInt.lift(o)
        if c is None:
            return NotImplemented
        return SymInt._divmod(self, c)[1]

    def __rmod__(self, o):
        if isinstance(o, (str, bytes)):
            return o % int(self)
        c = SymInt.lift(o)
        if c is None:
            return NotImplemented
        return SymInt._divmod(c, self)[1]

    def __divmod__(self, o):
        c = SymInt.lift(o)
        if c is None:
            return NotImplemented
        return SymInt._divmod(self, c)

    def __truediv__(self, o):
        from .symfloat import SymFloat
        f = SymFloat.from_int(self) / o
        if isinstance(o, int) and not isinstance(o, bool) and o > 0 and isinstance(f, SymFloat):
            f.ratio = (self, o)     # lets floor() use the integer quotient under lemma L1 (see shims.floor_shim)
        return f

    def __rtruediv__(self, o):
        from .symfloat import SymFloat
        return SymFloat.lift(o) / SymFloat.from_int(self)

    def __pow__(self, o):
        if isinstance(o, int) and 0 <= o <= 4:
            r = 1
            for _ in range(o):
                r = r * self
            return r
        raise Unsupported("pow")

    def __rpow__(self, o):
        if o == 2 and self.hi <= W - 4:
            return 1 << self
        if isinstance(o, int):
            return o ** self.concretise()
        raise Unsupported("rpow")

    # -- shifts
    @staticmethod
    def _shl(a, s):
        if s.lo < 0:
            if s.hi < 0 or ctx().decide(s.n < 0 if s.signed else z3.BoolVal(False)):
                raise ValueError("negative shift count")
        if s.hi > W:
            raise WidthExceeded("shift count up to %d" % s.hi)
        slo = max(s.lo, 0)
        cands = [a.lo << slo, a.lo << s.hi, a.hi << slo, a.hi << s.hi]
        lo, hi = min(cands), max(cands)
        if lo < -_MAXMAG or hi > _MAXMAG:
            raise WidthExceeded("shift result")
        if lo == hi:
            return lo
        k = max(_width_for(lo, hi)[0], 8)
        return SymInt.mk(a.at(k) << _resize(s.n, False, k), lo, hi)

    def __lshift__(self, o):
        c = SymInt.lift(o)
        if c is None:
            return NotImplemented
        return SymInt._shl(self, c)

    def __rlshift__(self, o):
        c = SymInt.lift(o)
        if c is None:
            return NotImplemented
        return SymInt._shl(c, self)

    @staticmethod
    def _shr(a, s):
        if s.lo < 0:
            if s.hi < 0 or ctx().decide(s.n < 0 if s.signed else z3.BoolVal(False)):
                raise ValueError("negative shift count")
        slo = max(s.lo, 0)
        cands = [a.lo >> slo, a.lo >> s.hi, a.hi >> slo, a.hi >> s.hi]
        k = max(a.n.size(), 8)
        sh = s
        if s.hi >= k:
            # shifting by >= width: arithmetic shift by k-1 (sign fill) resp. logical shift by k (zero)
            sh = SymInt.lift(sym_ite(s >= k, (k - 1) if a.signed else k, s))
        st = _resize(sh.n, False, k)
        at = a.at(k)
        return SymInt.mk((at >> st) if a.signed else z3.LShR(at, st), min(cands), max(cands))

    def __rshift__(self, o):
        c = SymInt.lift(o)
        if c is None:
            return NotImplemented
        return SymInt._shr(self, c)

    def __rrshift__(self, o):
        c = SymInt.lift(o)
        if c is None:
            return NotImplemented
        return SymInt._shr(c, self)

    # -- bit ops
    def _bitop(self, o, fn, kind):
        c = SymInt.lift(o)
        if c is None:
            return NotImplemented
        alo, ahi, blo, bhi = self.lo, self.hi, c.lo, c.hi
        if kind == "and":
            if alo >= 0 and blo >= 0:
                lo, hi = 0, min(ahi, bhi)
            elif alo >= 0:
                lo, hi = 0, ahi
            elif blo >= 0:
                lo, hi = 0, bhi
            else:
                k = max(_bitlen_bound(alo, ahi), _bitlen_bound(blo, bhi))
                lo, hi = -(1 << k), (1 << k) - 1
        else:
            k = max(_bitlen_bound(alo, ahi), _bitlen_bound(blo, bhi))
            if alo >= 0 and blo >= 0:
                lo, hi = 0, (1 << k) - 1
            else:
                lo, hi = -(1 << k), (1 << k) - 1
        return SymInt._arith(self, c, fn, lo, hi)

    def __and__(self, o):
        return self._bitop(o, lambda a, b: a & b, "and")

    __rand__ = __and__

    def __or__(self, o):
        return self._bitop(o, lambda a, b: a | b, "or")

    __ror__ = __or__

    def __xor__(self, o):
        return self._bitop(o, lambda a, b: a ^ b, "xor")

    __rxor__ = __xor__

    def __invert__(self):
        return -self - 1

    # -- comparisons
    def _cmp(self, o, op):
        from .symfloat import SymFloat
        if isinstance(o, (float, SymFloat)):
            return SymFloat.compare_int(self, o, op)
        c = SymInt.lift(o)
        if c is None:
            return NotImplemented
        lo, hi = c.lo, c.hi
        if op == "lt":
            if self.hi < lo:
                return True
            if self.lo >= hi:
                return False
        elif op == "le":
            if self.hi <= lo:
                return True
            if self.lo > hi:
                return False
        elif op == "gt":
            if self.lo > hi:
                return True
            if self.hi <= lo:
                return False
        elif op == "ge":
            if self.lo >= hi:
                return True
            if self.hi < lo:
                return False
        elif op == "eq":
            if self.hi < lo or self.lo > hi:
                return False
        if not self.signed and not c.signed:
            k = max(self.n.size(), c.n.size())
            a, b = self.at(k), c.at(k)
            t = {"lt": z3.ULT, "le": z3.ULE, "gt": z3.UGT, "ge": z3.UGE, "eq": lambda x, y: x == y}[op](a, b)
        else:
            k = max(self.swidth(), c.swidth())
            a, b = self.at(k), c.at(k)
            t = {"lt": lambda x, y: x < y, "le": lambda x, y: x <= y, "gt": lambda x, y: x > y,
                 "ge": lambda x, y: x >= y, "eq": lambda x, y: x == y}[op](a, b)
        return mk_bool(t)

    def __lt__(self, o):
        return self._cmp(o, "lt")

    def __le__(self, o):
        return self._cmp(o, "le")

    def __gt__(self, o):
        return self._cmp(o, "gt")

    def __ge__(self, o):
        return self._cmp(o, "ge")

    def __eq__(self, o):
        r = self._cmp(o, "eq")
        if r is NotImplemented:
            return False
        return r

    def __ne__(self, o):
        r = self.__eq__(o)
        return sym_not(r)

    def __bool__(self):
        if self.lo > 0 or self.hi < 0:
            return True
        return ctx().decide(self.n != 0)

    # -- concretisation (value forking)
    def concretise(self):
        c = ctx()
        n = 0
        while True:
            v = c.peek_hint()
            if v is None:
                v = c.get_model().eval(self.n, model_completion=True)
                v = v.as_signed_long() if self.signed else v.as_long()
            if c.decide(self.n == v, hint=v):
                return v
            n += 1
            if n > c.max_concretise:
                c.stats.realised += 1
                raise Unsupported("concretisation of a value with more than %d possibilities" % c.max_concretise)

    def __index__(self):
        return self.concretise()

    __int__ = __index__

    def __hash__(self):
        return hash(self.concretise())

    def __str__(self):
        return str(self.concretise())

    def __repr__(self):
        return "<symint [%d,%d]>" % (self.lo, self.hi)

    def __format__(self, spec):
        return "<symint>"

    def __float__(self):
        ctx().stats.realised += 1
        raise Unsupported("float(SymInt) at a C boundary")

    def hex(self):
        return "<symint>"

    def bit_length(self):
        raise Unsupported("bit_length")

    def to_bytes(self, length=1, byteorder="big", *, signed=False):
        from .symbytes import SymBytes
        length = int(length)
        if signed:
            raise Unsupported("signed to_bytes")
        if self.lo < 0:
            if self.hi < 0 or ctx().decide(self.n < 0):
                raise OverflowError("can't convert negative int to unsigned")
        lim = 1 << (8 * length)
        if self.hi >= lim:
            if max(self.lo, 0) >= lim or (self >= lim):
                raise OverflowError("int too big to convert")
        k = max(8 * length, self.n.size())
        t = _resize(self.n, self.signed, k)
        els = []
        for i in range(length):  # big endian
            bit = 8 * (length - 1 - i)
            e = simp(z3.Extract(bit + 7, bit, t))
            els.append(e.as_long() if z3.is_bv_value(e) else e)
        if byteorder == "little":
            els.reverse()
        elif byteorder != "big":
            raise ValueError("byteorder must be either 'little' or 'big'")
        return SymBytes(els)

    def __deepcopy__(self, memo):
        return self

    def __copy__(self):
        return self


def sym_int(name, lo, hi, signed=False):
    """Register a named symbolic input integer in [lo, hi]."""
    c = ctx()
    bits = max(hi.bit_length(), 1) + (1 if lo < 0 else 0)
    if bits > W - 2:
        raise WidthExceeded(name)
    v = z3.BitVec(name, bits)
    c.inputs[name] = ("int", v)
    c.input_signed[name] = lo < 0
    nat_lo = -(1 << (bits - 1)) if lo < 0 else 0
    nat_hi = (1 << (bits - 1)) - 1 if lo < 0 else (1 << bits) - 1
    x = SymInt(v, nat_lo if lo < 0 else 0, nat_hi)
    if lo > nat_lo:
        c.assume(x >= lo)
    if hi < nat_hi:
        c.assume(x <= hi)
    return SymInt(x.n, lo, hi)


def sym_bool(name):
    c = ctx()
    v = z3.Bool(name)
    c.inputs[name] = ("bool", v)
    return SymBool(v)


def record_const(name, value):
    ctx().inputs[name] = ("const", value)


def fresh_int(prefix, bits):
    c = ctx()
    v = z3.BitVec(c.fresh_name(prefix), bits)
    return SymInt(v, 0, (1 << bits) - 1)


def is_sym(x):
    return isinstance(x, (SymInt, SymBool))


# ------------------------------------------------------------------------------------------
# exploration


class Result:
    def __init__(self):
        self.stats = None
        self.violations = []
        self.sites = {}
        self.inconclusive = []
        self.samples = []
        self.wall_s = 0.0
        self.notes = {}

    @property
    def ok(self):
        return not self.violations and not self.inconclusive


def _arm_path_timer(c, seconds):
    """One path of the code under test that runs longer than `seconds` is interrupted with BudgetExceeded (again every 5 s until the
    exception gets through the bare except clauses of the code under test): a loop that never asks the solver anything would otherwise
    hang the configuration.  Harnesses whose property includes termination turn it into a violation candidate."""
    import signal
    import threading
    if threading.current_thread() is not threading.main_thread():
        return
    if seconds is None:
        signal.setitimer(signal.ITIMER_REAL, 0)
        return

    def on_alarm(sig, frm):
        e = BudgetExceeded("seconds per path")
        c.sticky = e
        c.stats.budget += 1
        raise e
    signal.signal(signal.SIGALRM, on_alarm)
    signal.setitimer(signal.ITIMER_REAL, seconds, 5.0)


def explore(fn, *, timeout_ms=60000, max_paths=200000, max_decisions=20000, max_violations=5,
            max_seconds=None, sample_paths=3, max_concretise=300, strategy="incremental", path_seconds=None):
    """Run fn() once per feasible path.  fn may call assume/check and returns an optional sample dict."""
    c = Ctx(timeout_ms=timeout_ms, max_decisions=max_decisions, max_paths=max_paths, max_concretise=max_concretise,
            strategy=strategy)
    if path_seconds is None:
        path_seconds = float(os.environ.get("TLV_PATH_SECONDS", "300"))
    res = Result()
    prev = CUR[0]
    CUR[0] = c
    t_start = time.time()
    try:
        while True:
            c.pos = 0
            c.fresh_n = 0
            c.sticky = None
            c.path_data = {}
            if c.frozen_until < 0:
                c.model = None
            else:
                c.model = c.decisions[c.frozen_until].other_model
            outcome = None
            try:
                _arm_path_timer(c, path_seconds)
                try:
                    ret = fn()
                finally:
                    _arm_path_timer(c, None)
                if c.sticky is not None:
                    raise c.sticky
                outcome = "done"
                if ret is not None and len(res.samples) < sample_paths:
                    try:
                        m = c.get_model()
                        res.samples.append({"path": c.stats.paths, "inputs": c.concretise_inputs(m), "result": ret})
                    except SxControl:
                        pass
            except PathInfeasible:
                outcome = "infeasible"
            except (Unsupported, WidthExceeded, BudgetExceeded, SolverUnknown, NonDeterminism) as e:
                outcome = "inconclusive"
                res.inconclusive.append("%s: %s" % (type(e).__name__, e))
                if isinstance(e, NonDeterminism):
                    break
            if outcome == "done":
                c.stats.paths += 1
            if len([v for v in c.violations if not v.label.startswith("kf:")]) >= max_violations:
                break
            if len(res.inconclusive) >= 20:
                break
            if c.stats.paths >= max_paths:
                res.inconclusive.append("max_paths %d reached" % max_paths)
                break
            if max_seconds is not None and time.time() - t_start > max_seconds:
                res.inconclusive.append("time budget %ss reached" % max_seconds)
                break
            # backtrack
            ds = c.decisions
            del ds[c.pos:]
            k = len(ds) - 1
            while k >= 0 and not (ds[k].other_feasible and not ds[k].other_done):
                k -= 1
            if k < 0:
                break
            # pop solver to level k
            n_levels = c.solver.num_scopes()
            if n_levels > k:
                c.solver.pop(n_levels - k)
            d = ds[k]
            d.taken = not d.taken
            d.other_done = True
            del ds[k + 1:]
            c.frozen_until = k
    finally:
        CUR[0] = prev
    res.stats = c.stats
    res.violations = c.violations
    res.sites = c.sites
    res.notes = c.notes
    res.wall_s = time.time() - t_start
    return res


def sym_ite(c, a, b):
    """if-then-else over ints without forking."""
    if isinstance(c, bool):
        return a if c else b
    ca, cb = SymInt.lift(a), SymInt.lift(b)
    lo, hi = min(ca.lo, cb.lo), max(ca.hi, cb.hi)
    k, s = _width_for(lo, hi)
    return SymInt.mk(z3.If(c.t, _resize(ca.n, ca.signed, k), _resize(cb.n, cb.signed, k)), lo, hi)


def sym_max(a, b):
    return sym_ite(a >= b, a, b)


def sym_choice(name, options):
    """Solver-chosen element of a finite list (forks once per feasible option)."""
    options = list(options)
    if len(options) == 1:
        record_const(name, 0)
        return options[0]
    i = sym_int(name, 0, len(options) - 1)
    if isinstance(i, SymInt):
        i = i.concretise()
    return options[i]
