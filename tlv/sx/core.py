"""sx core: path exploration by re-execution, SymBool / SymInt proxies over z3 bit-vectors.

The code under test runs natively in CPython; only values are symbolic.  The single place where
a path forks is SymBool.__bool__ (-> Ctx.decide).  Exploration is depth-first: a path is a list
of boolean decisions; after a path ends, the deepest decision whose other side is feasible and
unexplored is flipped and the scenario function is executed again with that prefix.
"""
import time
import z3

W = 96  # width of every SymInt bit-vector; magnitudes are tracked so that wrap-around never happens silently
_MAXMAG = 1 << (W - 2)


class SxControl(BaseException):
    """Engine control flow; derives from BaseException so `except Exception` in the code under test lets it pass."""

    def __init__(self, *a):
        super().__init__(*a)
        c = CUR[0]
        if c is not None:
            c.sticky = self  # survives a bare `except:` in the code under test


class PathInfeasible(SxControl):
    pass


class Unsupported(SxControl):
    pass


class WidthExceeded(SxControl):
    pass


class BudgetExceeded(SxControl):
    pass


class SolverUnknown(SxControl):
    pass


class NonDeterminism(SxControl):
    pass


CUR = [None]


def ctx():
    c = CUR[0]
    if c is None:
        raise RuntimeError("no active sx context")
    return c


class Decision:
    __slots__ = ("taken", "other_feasible", "other_done", "ast_id", "term", "other_model")

    def __init__(self, taken, other_feasible, term, other_model):
        self.taken = taken
        self.other_feasible = other_feasible
        self.other_done = False
        self.term = term
        self.ast_id = term.get_id()
        self.other_model = other_model


class Stats:
    def __init__(self):
        self.paths = 0
        self.decisions = 0
        self.queries = 0
        self.solver_s = 0.0
        self.unknown = 0
        self.realised = 0
        self.width_exceeded = 0
        self.infeasible = 0
        self.budget = 0
        self.checks = 0

    def as_dict(self):
        return dict(self.__dict__)


class Violation:
    def __init__(self, label, inputs, detail=None, path=None):
        self.label = label
        self.inputs = inputs
        self.detail = detail
        self.path = path

    def as_dict(self):
        return {"label": self.label, "inputs": self.inputs, "detail": self.detail}


class Ctx:
    def __init__(self, timeout_ms=60000, max_decisions=20000, max_paths=200000, max_concretise=300):
        self.solver = z3.Solver()
        self.solver.set("timeout", timeout_ms)
        self.decisions = []  # list[Decision] of the current path
        self.pos = 0
        self.frozen_until = -1
        self.model = None
        self.stats = Stats()
        self.fresh_n = 0
        self.inputs = {}  # name -> (kind, z3 term(s))
        self.sticky = None
        self.violations = []
        self.max_decisions = max_decisions
        self.max_paths = max_paths
        self.max_concretise = max_concretise
        self.sites = {}  # assertion label -> number of feasible paths on which it was evaluated
        self.path_log = []
        self.notes = {}
        self.ufs = {}
        self.samples = []
        self.path_data = {}  # scratch area cleared at each path start

    # ---- solver helpers ------------------------------------------------------------------
    def _check(self, *extra):
        t0 = time.time()
        self.stats.queries += 1
        r = self.solver.check(*extra)
        self.stats.solver_s += time.time() - t0
        if r == z3.unknown:
            self.stats.unknown += 1
            raise SolverUnknown(self.solver.reason_unknown())
        return r == z3.sat

    def get_model(self):
        if self.model is None:
            if not self._check():
                raise PathInfeasible("path condition unsat")
            self.model = self.solver.model()
        return self.model

    def model_int(self, term):
        m = self.get_model()
        v = m.eval(term, model_completion=True)
        if z3.is_bv(v):
            x = v.as_long()
            n = v.size()
            return x
        if z3.is_true(v):
            return True
        if z3.is_false(v):
            return False
        raise Unsupported("model value " + str(v))

    # ---- decisions -----------------------------------------------------------------------
    def decide(self, t):
        """t: z3 BoolRef.  Returns the Python bool chosen on this path."""
        t = z3.simplify(t)
        if z3.is_true(t):
            return True
        if z3.is_false(t):
            return False
        i = self.pos
        if i >= self.max_decisions:
            self.stats.budget += 1
            raise BudgetExceeded("decisions per path")
        if i < len(self.decisions):
            d = self.decisions[i]
            if d.ast_id != t.get_id():
                raise NonDeterminism("decision %d differs on re-execution: %s vs %s" % (i, d.term, t))
            self.pos += 1
            if i < self.frozen_until:
                return d.taken
            # the flipped decision: constraints not yet in the solver
            self.solver.push()
            self.solver.add(t if d.taken else z3.Not(t))
            return d.taken
        self.stats.decisions += 1
        m = self.model
        side = None
        if m is not None:
            v = m.eval(t, model_completion=True)
            if z3.is_true(v):
                side = True
            elif z3.is_false(v):
                side = False
        other_model = None
        if side is None:
            if self._check(t):
                side = True
                self.model = self.solver.model()
            else:
                side = False
                self.model = None
                # the path condition itself is feasible (invariant), so the False side is
                d = Decision(False, False, t, None)
                self.decisions.append(d)
                self.pos += 1
                self.solver.push()
                self.solver.add(z3.Not(t))
                return False
        other = z3.Not(t) if side else t
        of = self._check(other)
        if of:
            other_model = self.solver.model()
        d = Decision(side, of, t, other_model)
        self.decisions.append(d)
        self.pos += 1
        self.solver.push()
        self.solver.add(t if side else z3.Not(t))
        return side

    def replaying(self):
        return self.pos <= self.frozen_until

    def assume(self, t):
        if isinstance(t, bool):
            if not t:
                raise PathInfeasible("assume False")
            return
        if isinstance(t, SymBool):
            t = t.t
        if self.replaying():
            return
        self.solver.add(t)
        if self.model is not None:
            v = self.model.eval(t, model_completion=True)
            if z3.is_true(v):
                return
        self.model = None
        if not self._check():
            self.stats.infeasible += 1
            raise PathInfeasible("assumption unsat")
        self.model = self.solver.model()

    def check(self, cond, label, detail=None):
        """Assertion: is there a value on this path with cond false?  Does not fork."""
        self.stats.checks += 1
        if not self.replaying():
            self.sites[label] = self.sites.get(label, 0) + 1
        if isinstance(cond, SymBool):
            cond = cond.t
        if isinstance(cond, bool):
            if cond:
                return True
            if self.replaying():
                return False
            self._violation(label, self.get_model(), detail)
            return False
        if self.replaying():
            return True
        t = z3.simplify(cond)
        if z3.is_true(t):
            return True
        if self._check(z3.Not(t)):
            self._violation(label, self.solver.model(), detail)
            return False
        return True

    def fail(self, label, detail=None):
        return self.check(False, label, detail)

    def _violation(self, label, model, detail):
        inputs = self.concretise_inputs(model)
        if callable(detail):
            try:
                detail = detail(model)
            except Exception as e:  # pragma: no cover
                detail = "detail failed: %r" % (e,)
        self.violations.append(Violation(label, inputs, detail, [d.taken for d in self.decisions[:self.pos]]))

    def concretise_inputs(self, model):
        out = {}
        for name, (kind, term) in self.inputs.items():
            if kind == "int":
                v = model.eval(term, model_completion=True)
                x = v.as_long()
                if x >= 1 << (term.size() - 1) and self.input_signed.get(name):
                    x -= 1 << term.size()
                out[name] = x
            elif kind == "bool":
                out[name] = bool(z3.is_true(model.eval(term, model_completion=True)))
            elif kind == "bytes":
                bs = []
                for e in term:
                    if isinstance(e, int):
                        bs.append(e)
                    else:
                        bs.append(model.eval(e, model_completion=True).as_long())
                out[name] = bytes(bs).hex()
            elif kind == "const":
                out[name] = term
        return out

    input_signed = {}

    # ---- symbols -------------------------------------------------------------------------
    def fresh_name(self, prefix):
        self.fresh_n += 1
        return "%s!%d" % (prefix, self.fresh_n)

    def uf(self, name, *sig):
        k = (name,) + tuple(str(s) for s in sig)
        f = self.ufs.get(k)
        if f is None:
            f = z3.Function(name, *sig)
            self.ufs[k] = f
        return f


class SymBool:
    __slots__ = ("t",)

    def __init__(self, t):
        self.t = t

    def __bool__(self):
        return ctx().decide(self.t)

    def __and__(self, o):
        o = _tobool(o)
        return mk_bool(z3.And(self.t, o))

    __rand__ = __and__

    def __or__(self, o):
        o = _tobool(o)
        return mk_bool(z3.Or(self.t, o))

    __ror__ = __or__

    def __invert__(self):
        return mk_bool(z3.Not(self.t))

    def __eq__(self, o):
        if isinstance(o, (bool, SymBool)):
            return mk_bool(self.t == _tobool(o))
        if isinstance(o, int):
            return mk_bool(z3.If(self.t, 1, 0) == o)
        return NotImplemented

    def __ne__(self, o):
        r = self.__eq__(o)
        if r is NotImplemented:
            return r
        return ~r if isinstance(r, SymBool) else (not r)

    def __hash__(self):
        return hash(bool(self))

    def __int__(self):
        return 1 if bool(self) else 0

    __index__ = __int__

    def __repr__(self):
        return "<symbool>"

    def __format__(self, spec):
        return "<symbool>"


def _tobool(o):
    if isinstance(o, SymBool):
        return o.t
    if isinstance(o, bool):
        return z3.BoolVal(o)
    raise Unsupported("bool op with %r" % type(o))


def mk_bool(t):
    t = z3.simplify(t)
    if z3.is_true(t):
        return True
    if z3.is_false(t):
        return False
    return SymBool(t)


def sym_not(x):
    if isinstance(x, SymBool):
        return ~x
    return not x


def sym_and(*xs):
    ts = []
    for x in xs:
        if isinstance(x, SymBool):
            ts.append(x.t)
        elif not x:
            return False
    if not ts:
        return True
    return mk_bool(z3.And(*ts))


def sym_or(*xs):
    ts = []
    for x in xs:
        if isinstance(x, SymBool):
            ts.append(x.t)
        elif x:
            return True
    if not ts:
        return False
    return mk_bool(z3.Or(*ts))


def implies(a, b):
    return sym_or(sym_not(a), b)


# ------------------------------------------------------------------------------------------
# SymInt


def _bv(v):
    return z3.BitVecVal(v, W)


def _bitlen_bound(lo, hi):
    return max(abs(lo), abs(hi)).bit_length()


class SymInt:
    """Python int semantics over a signed W-bit vector with a conservative [lo, hi] interval."""
    __slots__ = ("t", "lo", "hi")

    def __init__(self, t, lo, hi):
        if lo < -_MAXMAG or hi > _MAXMAG:
            c = CUR[0]
            if c is not None:
                c.stats.width_exceeded += 1
            raise WidthExceeded("magnitude [%d, %d] exceeds width %d" % (lo, hi, W))
        self.t = t
        self.lo = lo
        self.hi = hi

    # -- construction helpers
    @staticmethod
    def mk(t, lo, hi):
        if lo == hi:
            return lo
        t = z3.simplify(t)
        if z3.is_bv_value(t):
            v = t.as_signed_long()
            return v
        return SymInt(t, lo, hi)

    @staticmethod
    def coerce(o):
        """-> (term, lo, hi) or None"""
        if isinstance(o, SymInt):
            return o.t, o.lo, o.hi
        if isinstance(o, bool):
            return _bv(int(o)), int(o), int(o)
        if isinstance(o, int):
            if abs(o) > _MAXMAG:
                raise WidthExceeded("constant %d" % o)
            return _bv(o), o, o
        if isinstance(o, SymBool):
            return z3.If(o.t, _bv(1), _bv(0)), 0, 1
        return None

    # -- arithmetic
    def __add__(self, o):
        from .symfloat import SymFloat
        if isinstance(o, (float, SymFloat)):
            return SymFloat.from_int(self) + o
        c = SymInt.coerce(o)
        if c is None:
            return NotImplemented
        return SymInt.mk(self.t + c[0], self.lo + c[1], self.hi + c[2])

    __radd__ = __add__

    def __sub__(self, o):
        from .symfloat import SymFloat
        if isinstance(o, (float, SymFloat)):
            return SymFloat.from_int(self) - o
        c = SymInt.coerce(o)
        if c is None:
            return NotImplemented
        return SymInt.mk(self.t - c[0], self.lo - c[2], self.hi - c[1])

    def __rsub__(self, o):
        from .symfloat import SymFloat
        if isinstance(o, (float, SymFloat)):
            return o - SymFloat.from_int(self)
        c = SymInt.coerce(o)
        if c is None:
            return NotImplemented
        return SymInt.mk(c[0] - self.t, c[1] - self.hi, c[2] - self.lo)

    def __neg__(self):
        return SymInt.mk(-self.t, -self.hi, -self.lo)

    def __pos__(self):
        return self

    def __abs__(self):
        if self.lo >= 0:
            return self
        return SymInt.mk(z3.If(self.t < 0, -self.t, self.t), 0, max(abs(self.lo), abs(self.hi)))

    def __mul__(self, o):
        from .symfloat import SymFloat
        if isinstance(o, (float, SymFloat)):
            return SymFloat.from_int(self) * o
        if isinstance(o, (bytes, bytearray, str, list, tuple)):
            return o * int(self)
        c = SymInt.coerce(o)
        if c is None:
            return NotImplemented
        ps = [self.lo * c[1], self.lo * c[2], self.hi * c[1], self.hi * c[2]]
        return SymInt.mk(self.t * c[0], min(ps), max(ps))

    __rmul__ = __mul__

    def _divmod(self, a, b):
        # Python floor semantics from z3's truncating signed division
        (at, alo, ahi), (bt, blo, bhi) = a, b
        if blo <= 0 <= bhi:
            if blo == bhi:
                raise ZeroDivisionError("integer division or modulo by zero")
            if ctx().decide(bt == 0):
                raise ZeroDivisionError("integer division or modulo by zero")
            if bhi <= 0:
                bhi = -1
            if blo >= 0:
                blo = 1
        if alo >= 0 and blo > 0:
            q = z3.UDiv(at, bt)
            r = z3.URem(at, bt)
            return (q, alo // bhi, ahi // blo), (r, 0, min(ahi, bhi - 1))
        q0 = at / bt  # signed, truncating
        r0 = z3.SRem(at, bt)
        adj = z3.And(r0 != 0, (r0 < 0) != (bt < 0))
        q = z3.If(adj, q0 - 1, q0)
        r = z3.If(adj, r0 + bt, r0)
        mag = max(abs(alo), abs(ahi)) + 1
        bm = max(abs(blo), abs(bhi))
        return (q, -mag, mag), (r, -bm, bm)

    def __floordiv__(self, o):
        c = SymInt.coerce(o)
        if c is None:
            return NotImplemented
        q, _ = self._divmod((self.t, self.lo, self.hi), c)
        return SymInt.mk(*q)

    def __rfloordiv__(self, o):
        c = SymInt.coerce(o)
        if c is None:
            return NotImplemented
        q, _ = self._divmod(c, (self.t, self.lo, self.hi))
        return SymInt.mk(*q)

    def __mod__(self, o):
        c = SymInt.coerce(o)
        if c is None:
            return NotImplemented
        _, r = self._divmod((self.t, self.lo, self.hi), c)
        return SymInt.mk(*r)

    def __rmod__(self, o):
        if isinstance(o, (str, bytes)):
            return o % int(self)
        c = SymInt.coerce(o)
        if c is None:
            return NotImplemented
        _, r = self._divmod(c, (self.t, self.lo, self.hi))
        return SymInt.mk(*r)

    def __divmod__(self, o):
        return self // o, self % o

    def __truediv__(self, o):
        from .symfloat import SymFloat
        return SymFloat.from_int(self) / o

    def __rtruediv__(self, o):
        from .symfloat import SymFloat
        return SymFloat.lift(o) / SymFloat.from_int(self)

    def __pow__(self, o):
        if isinstance(o, int) and 0 <= o <= 4:
            r = 1
            for _ in range(o):
                r = r * self
            return r
        raise Unsupported("pow")

    def __rpow__(self, o):
        if o == 2:
            return 1 << self
        raise Unsupported("rpow")

    # -- shifts
    def __lshift__(self, o):
        c = SymInt.coerce(o)
        if c is None:
            return NotImplemented
        if c[1] < 0:
            if c[2] < 0 or ctx().decide(c[0] < 0):
                raise ValueError("negative shift count")
        sh_hi = c[2]
        if sh_hi > W:
            raise WidthExceeded("shift count up to %d" % sh_hi)
        lo = min(self.lo, self.lo << sh_hi)
        hi = max(self.hi, self.hi << sh_hi)
        return SymInt.mk(self.t << c[0], lo, hi)

    def __rlshift__(self, o):
        c = SymInt.coerce(o)
        if c is None:
            return NotImplemented
        if self.lo < 0:
            if self.hi < 0 or ctx().decide(self.t < 0):
                raise ValueError("negative shift count")
        if self.hi > W:
            raise WidthExceeded("shift count up to %d" % self.hi)
        a = c[1] << max(self.lo, 0), c[1] << self.hi, c[2] << max(self.lo, 0), c[2] << self.hi
        return SymInt.mk(c[0] << self.t, min(a), max(a))

    def __rshift__(self, o):
        c = SymInt.coerce(o)
        if c is None:
            return NotImplemented
        if c[1] < 0:
            if c[2] < 0 or ctx().decide(c[0] < 0):
                raise ValueError("negative shift count")
        s_lo = max(c[1], 0)
        s_hi = c[2]
        cands = [self.lo >> s_lo, self.lo >> s_hi, self.hi >> s_lo, self.hi >> s_hi]
        sh = c[0]
        if s_hi >= W:
            sh = z3.If(z3.UGE(sh, _bv(W - 1)), _bv(W - 1), sh)
        return SymInt.mk(self.t >> sh, min(cands), max(cands))

    def __rrshift__(self, o):
        c = SymInt.coerce(o)
        if c is None:
            return NotImplemented
        return SymInt(c[0], c[1], c[2]).__rshift__(self)

    # -- bit ops
    def _bitop(self, o, fn, kind):
        c = SymInt.coerce(o)
        if c is None:
            return NotImplemented
        alo, ahi, blo, bhi = self.lo, self.hi, c[1], c[2]
        if kind == "and":
            if alo >= 0 and blo >= 0:
                lo, hi = 0, min(ahi, bhi)
            elif alo >= 0:
                lo, hi = 0, ahi
            elif blo >= 0:
                lo, hi = 0, bhi
            else:
                k = max(_bitlen_bound(alo, ahi), _bitlen_bound(blo, bhi))
                lo, hi = -(1 << k), (1 << k) - 1
        else:
            k = max(_bitlen_bound(alo, ahi), _bitlen_bound(blo, bhi))
            if alo >= 0 and blo >= 0:
                lo, hi = 0, (1 << k) - 1
            else:
                lo, hi = -(1 << k), (1 << k) - 1
        return SymInt.mk(fn(self.t, c[0]), lo, hi)

    def __and__(self, o):
        return self._bitop(o, lambda a, b: a & b, "and")

    __rand__ = __and__

    def __or__(self, o):
        return self._bitop(o, lambda a, b: a | b, "or")

    __ror__ = __or__

    def __xor__(self, o):
        return self._bitop(o, lambda a, b: a ^ b, "xor")

    __rxor__ = __xor__

    def __invert__(self):
        return SymInt.mk(~self.t, -self.hi - 1, -self.lo - 1)

    # -- comparisons
    def _cmp(self, o, op):
        from .symfloat import SymFloat
        if isinstance(o, (float, SymFloat)):
            return SymFloat.compare_int(self, o, op)
        c = SymInt.coerce(o)
        if c is None:
            return NotImplemented
        t, lo, hi = c
        if op == "lt":
            if self.hi < lo:
                return True
            if self.lo >= hi:
                return False
            return mk_bool(self.t < t)
        if op == "le":
            if self.hi <= lo:
                return True
            if self.lo > hi:
                return False
            return mk_bool(self.t <= t)
        if op == "gt":
            if self.lo > hi:
                return True
            if self.hi <= lo:
                return False
            return mk_bool(self.t > t)
        if op == "ge":
            if self.lo >= hi:
                return True
            if self.hi < lo:
                return False
            return mk_bool(self.t >= t)
        if op == "eq":
            if self.hi < lo or self.lo > hi:
                return False
            return mk_bool(self.t == t)
        raise AssertionError(op)

    def __lt__(self, o):
        return self._cmp(o, "lt")

    def __le__(self, o):
        return self._cmp(o, "le")

    def __gt__(self, o):
        return self._cmp(o, "gt")

    def __ge__(self, o):
        return self._cmp(o, "ge")

    def __eq__(self, o):
        r = self._cmp(o, "eq")
        if r is NotImplemented:
            return False
        return r

    def __ne__(self, o):
        r = self.__eq__(o)
        return sym_not(r)

    def __bool__(self):
        if self.lo > 0 or self.hi < 0:
            return True
        return ctx().decide(self.t != 0)

    # -- concretisation (value forking)
    def concretise(self):
        c = ctx()
        n = 0
        while True:
            v = c.get_model().eval(self.t, model_completion=True).as_signed_long()
            if c.decide(self.t == v):
                return v
            n += 1
            if n > c.max_concretise:
                c.stats.realised += 1
                raise Unsupported("concretisation of a value with more than %d possibilities" % c.max_concretise)

    def __index__(self):
        return self.concretise()

    __int__ = __index__

    def __hash__(self):
        return hash(self.concretise())

    def __str__(self):
        return str(self.concretise())

    def __repr__(self):
        return "<symint [%d,%d]>" % (self.lo, self.hi)

    def __format__(self, spec):
        return "<symint>"

    def __float__(self):
        ctx().stats.realised += 1
        raise Unsupported("float(SymInt) at a C boundary")

    def hex(self):
        return "<symint>"

    def bit_length(self):
        raise Unsupported("bit_length")

    def to_bytes(self, length=1, byteorder="big", *, signed=False):
        from .symbytes import SymBytes
        length = int(length)
        if signed:
            raise Unsupported("signed to_bytes")
        if self.lo < 0:
            if self.hi < 0 or ctx().decide(self.t < 0):
                raise OverflowError("can't convert negative int to unsigned")
        lim = 1 << (8 * length)
        if self.hi >= lim:
            if max(self.lo, 0) >= lim or ctx().decide(self.t >= _bv(lim) if lim < _MAXMAG else z3.BoolVal(False)):
                raise OverflowError("int too big to convert")
        els = []
        for i in range(length):  # big endian
            bit = 8 * (length - 1 - i)
            if bit + 8 <= W:
                els.append(z3.simplify(z3.Extract(bit + 7, bit, self.t)))
            else:
                els.append(0)
        if byteorder == "little":
            els.reverse()
        elif byteorder != "big":
            raise ValueError("byteorder must be either 'little' or 'big'")
        return SymBytes(els)

    def __deepcopy__(self, memo):
        return self

    def __copy__(self):
        return self


def sym_int(name, lo, hi, signed=False):
    """Register a named symbolic input integer in [lo, hi]."""
    c = ctx()
    bits = max(hi.bit_length(), 1) + (1 if lo < 0 else 0)
    if bits > W - 2:
        raise WidthExceeded(name)
    v = z3.BitVec(name, bits)
    c.inputs[name] = ("int", v)
    c.input_signed[name] = lo < 0
    t = z3.SignExt(W - bits, v) if lo < 0 else z3.ZeroExt(W - bits, v)
    nat_lo = -(1 << (bits - 1)) if lo < 0 else 0
    nat_hi = (1 << (bits - 1)) - 1 if lo < 0 else (1 << bits) - 1
    x = SymInt(t, lo, hi)
    if lo > nat_lo:
        c.assume(t >= _bv(lo))
    if hi < nat_hi:
        c.assume(t <= _bv(hi))
    return x


def sym_bool(name):
    c = ctx()
    v = z3.Bool(name)
    c.inputs[name] = ("bool", v)
    return SymBool(v)


def record_const(name, value):
    ctx().inputs[name] = ("const", value)


def fresh_int(prefix, bits):
    c = ctx()
    v = z3.BitVec(c.fresh_name(prefix), bits)
    return SymInt(z3.ZeroExt(W - bits, v), 0, (1 << bits) - 1)


def is_sym(x):
    return isinstance(x, (SymInt, SymBool))


# ------------------------------------------------------------------------------------------
# exploration


class Result:
    def __init__(self):
        self.stats = None
        self.violations = []
        self.sites = {}
        self.inconclusive = []
        self.samples = []
        self.wall_s = 0.0
        self.notes = {}

    @property
    def ok(self):
        return not self.violations and not self.inconclusive


def explore(fn, *, timeout_ms=60000, max_paths=200000, max_decisions=20000, max_violations=5,
            max_seconds=None, sample_paths=3, max_concretise=300):
    """Run fn() once per feasible path.  fn may call assume/check and returns an optional sample dict."""
    c = Ctx(timeout_ms=timeout_ms, max_decisions=max_decisions, max_paths=max_paths, max_concretise=max_concretise)
    res = Result()
    prev = CUR[0]
    CUR[0] = c
    t_start = time.time()
    try:
        while True:
            c.pos = 0
            c.fresh_n = 0
            c.sticky = None
            c.path_data = {}
            if c.frozen_until < 0:
                c.model = None
            else:
                c.model = c.decisions[c.frozen_until].other_model
            outcome = None
            try:
                ret = fn()
                if c.sticky is not None:
                    raise c.sticky
                outcome = "done"
                if ret is not None and len(res.samples) < sample_paths:
                    try:
                        m = c.get_model()
                        res.samples.append({"path": c.stats.paths, "inputs": c.concretise_inputs(m), "result": ret})
                    except SxControl:
                        pass
            except PathInfeasible:
                outcome = "infeasible"
            except (Unsupported, WidthExceeded, BudgetExceeded, SolverUnknown, NonDeterminism) as e:
                outcome = "inconclusive"
                res.inconclusive.append("%s: %s" % (type(e).__name__, e))
                if isinstance(e, NonDeterminism):
                    break
            if outcome == "done":
                c.stats.paths += 1
            if len(c.violations) >= max_violations:
                break
            if len(res.inconclusive) >= 20:
                break
            if c.stats.paths >= max_paths:
                res.inconclusive.append("max_paths %d reached" % max_paths)
                break
            if max_seconds is not None and time.time() - t_start > max_seconds:
                res.inconclusive.append("time budget %ss reached" % max_seconds)
                break
            # backtrack
            ds = c.decisions
            del ds[c.pos:]
            k = len(ds) - 1
            while k >= 0 and not (ds[k].other_feasible and not ds[k].other_done):
                k -= 1
            if k < 0:
                break
            # pop solver to level k
            n_levels = c.solver.num_scopes()
            if n_levels > k:
                c.solver.pop(n_levels - k)
            d = ds[k]
            d.taken = not d.taken
            d.other_done = True
            del ds[k + 1:]
            c.frozen_until = k
    finally:
        CUR[0] = prev
    res.stats = c.stats
    res.violations = c.violations
    res.sites = c.sites
    res.notes = c.notes
    res.wall_s = time.time() - t_start
    return res


def sym_ite(c, a, b):
    """if-then-else over ints without forking."""
    if isinstance(c, bool):
        return a if c else b
    ca, cb = SymInt.coerce(a), SymInt.coerce(b)
    return SymInt.mk(z3.If(c.t, ca[0], cb[0]), min(ca[1], cb[1]), max(ca[2], cb[2]))


def sym_max(a, b):
    return sym_ite(a >= b, a, b)
