"""dict whose lookups with a symbolic key are decided by the solver (one path per entry, one for 'absent')."""
from .symbytes import SymBytes
from .core import SymInt


def _symbolic(k):
    return (isinstance(k, SymBytes) and not k.is_concrete()) or isinstance(k, SymInt)


class SymDict(dict):
    def __getitem__(self, key):
        if not _symbolic(key):
            if isinstance(key, SymBytes):
                key = bytes(key.e)
            return dict.__getitem__(self, key)
        for k, v in dict.items(self):
            if key == k:
                return v
        raise KeyError(key)

    def __contains__(self, key):
        if not _symbolic(key):
            if isinstance(key, SymBytes):
                key = bytes(key.e)
            return dict.__contains__(self, key)
        for k in dict.keys(self):
            if key == k:
                return True
        return False

    def get(self, key, default=None):
        try:
            return self[key]
        except KeyError:
            return default


class SymMap:
    """Mapping with symbolic keys and values (not a dict: no hashing).  Lookups are decided by the solver; a later pair with an
    equal key overrides an earlier one, as in a dict built by successive assignments."""

    def __init__(self, pairs):
        self.pairs = list(pairs)

    class _Keys:
        def __init__(self, m):
            self.m = m

        def __contains__(self, k):
            for kk, _ in self.m.pairs:
                if kk == k:
                    return True
            return False

        def __iter__(self):
            return iter(k for k, _ in self.m.pairs)

        def __len__(self):
            return len(self.m.pairs)

    def keys(self):
        return SymMap._Keys(self)

    def __contains__(self, k):
        return k in self.keys()

    def __getitem__(self, k):
        for kk, v in reversed(self.pairs):
            if kk == k:
                return v
        raise KeyError(k)

    def get(self, k, default=None):
        try:
            return self[k]
        except KeyError:
            return default

    def items(self):
        return list(self.pairs)

    def __len__(self):
        return len(self.pairs)

    def __format__(self, spec):
        return "<symmap>"

    __repr__ = __str__ = lambda self: "<symmap>"
