"""dict whose lookups with a symbolic key are decided by the solver (one path per entry, one for 'absent')."""
from .symbytes import SymBytes
from .core import SymInt


def _symbolic(k):
    return (isinstance(k, SymBytes) and not k.is_concrete()) or isinstance(k, SymInt)


class SymDict(dict):
    def __getitem__(self, key):
        if not _symbolic(key):
            if isinstance(key, SymBytes):
                key = bytes(key.e)
            return dict.__getitem__(self, key)
        for k, v in dict.items(self):
            if key == k:
                return v
        raise KeyError(key)

    def __contains__(self, key):
        if not _symbolic(key):
            if isinstance(key, SymBytes):
                key = bytes(key.e)
            return dict.__contains__(self, key)
        for k in dict.keys(self):
            if key == k:
                return True
        return False

    def get(self, key, default=None):
        try:
            return self[key]
        except KeyError:
            return default
