"""dict whose lookups with a symbolic key are decided by the solver (one path per entry, one for 'absent')."""
from .symbytes import SymBytes
from .core import SymInt


def _symbolic(k):
    return (isinstance(k, SymBytes) and not k.is_concrete()) or isinstance(k, SymInt)


class SymDict(dict):
    def __getitem__(self, key):
        if not _symbolic(key):
            if isinstance(key, SymBytes):
                key = bytes(key.e)
            return dict.__getitem__(self, key)
        for k, v in dict.items(self):
            if key == k:
                return v
        raise KeyError(key)

    def __contains__(self, key):
        if not _symbolic(key):
            if isinstance(key, SymBytes):
                key = bytes(key.e)
            return dict.__contains__(self, key)
        for k in dict.keys(self):
            if key == k:
                return True
        return False

    def get(self, key, default=None):
        try:
            return self[key]
        except KeyError:
            return default


class SymMap:
    """Mapping with symbolic keys and values (not a dict: no hashing).  Lookups are decided by the solver; a later pair with an
    equal key overrides an earlier one, as in a dict built by successive assignments."""

    def __init__(self, pairs):
        self.pairs = list(pairs)

    class _Keys:
        def __init__(self, m):
            self.m = m

        def __contains__(self, k):
            for kk, _ in self.m.pairs:
                if kk == k:
                    return True
            return False

        def __iter__(self):
            return iter(k for k, _ in self.m.pairs)

        def __len__(self):
            return len(self.m.pairs)

    def keys(self):
        return SymMap._Keys(self)

    def __contains__(self, k):
        return k in self.keys()

    def __getitem__(self, k):
        for kk, v in reversed(self.pairs):
            if kk == k:
                return v
        raise KeyError(k)

    def get(self, k, default=None):
        try:
            return self[k]
        except KeyError:
            return default

    def items(self):
        return list(self.pairs)

    def __len__(self):
        return len(self.pairs)

    def __format__(self, spec):
        return "<symmap>"

    __repr__ = __str__ = lambda self: "<symmap>"


class SymSet:
    """set() replacement whose membership tests are decided by the solver and whose iteration order can be chosen by it
    (models hash-seed dependent order).  Elements are kept in insertion order."""
    order_chooser = None     # callable(n) -> permutation of range(n), or None for insertion order

    def __init__(self, iterable=()):
        self.items = []
        for x in iterable:
            self.add(x)

    def add(self, x):
        for y in self.items:
            if y == x:
                return
        self.items.append(x)

    def __contains__(self, x):
        for y in self.items:
            if y == x:
                return True
        return False

    def __or__(self, other):
        r = SymSet(self.items)
        for x in other:
            r.add(x)
        return r

    __ror__ = __or__

    def __iter__(self):
        n = len(self.items)
        ch = SymSet.order_chooser
        if ch is None or n < 2:
            return iter(list(self.items))
        perm = ch(n)
        return iter([self.items[i] for i in perm])

    def __len__(self):
        return len(self.items)

    def discard(self, x):
        self.items = [y for y in self.items if not (y == x)]

    def __repr__(self):
        return "<symset %d>" % len(self.items)
