"""dict whose lookups with a symbolic key are decided by the solver (one path per entry, one for 'absent')."""
from .symbytes import SymBytes
from .core import SymInt


def _symbolic(k):
    return (isinstance(k, SymBytes) and not k.is_concrete()) or isinstance(k, SymInt)


class SymDict(dict):
    def __getitem__(self, key):
        if not _symbolic(key):
            if isinstance(key, SymBytes):
                key = bytes(key.e)
            return dict.__getitem__(self, key)
        for k, v in dict.items(self):
            if key == k:
                return v
        raise KeyError(key)

    def __contains__(self, key):
        if not _symbolic(key):
            if isinstance(key, SymBytes):
                key = bytes(key.e)
            return dict.__contains__(self, key)
        for k in dict.keys(self):
            if key == k:
                return True
        return False

    def get(self, key, default=None):
        try:
            return self[key]
        except KeyError:
            return default


class SymMap:
    """Mapping with symbolic keys and values (not a dict: no hashing).  Lookups are decided by the solver; a later pair with an
    equal key overrides an earlier one, as in a dict built by successive assignments."""

    def __init__(self, pairs):
        self.pairs = list(pairs)

    class _Keys:
        def __init__(self, m):
            self.m = m

        def __contains__(self, k):
            for kk, _ in self.m.pairs:
                if kk == k:
                    return True
            return False

        def __iter__(self):
            return iter(k for k, _ in self.m.pairs)

        def __len__(self):
            return len(self.m.pairs)

    def keys(self):
        return SymMap._Keys(self)

    def __contains__(self, k):
        return k in self.keys()

    def __getitem__(self, k):
        for kk, v in reversed(self.pairs):
            if kk == k:
                return v
        raise KeyError(k)

    def get(self, k, default=None):
        try:
            return self[k]
        except KeyError:
            return default

    def items(self):
        return list(self.pairs)

    def __len__(self):
        return len(self.pairs)

    def __format__(self, spec):
        return "<symmap>"

    __repr__ = __str__ = lambda self: "<symmap>"


class SymSet:
    """set() replacement whose membership tests are decided by the solver and whose iteration order can be chosen by it
    (models hash-seed dependent order).  Elements are kept in insertion order."""
    order_chooser = None     # callable(n) -> permutation of range(n), or None for insertion order

    def __init__(self, iterable=()):
        self.items = []
        for x in iterable:
            self.add(x)

    def add(self, x):
        for y in self.items:
            if y == x:
                return
        self.items.append(x)

    def __contains__(self, x):
        for y in self.items:
            if y == x:
                return True
        return False

    def __or__(self, other):
        r = SymSet(self.items)
        for x in other:
            r.add(x)
        return r

    __ror__ = __or__

    def __iter__(self):
        n = len(self.items)
        ch = SymSet.order_chooser
        if ch is None or n < 2:
            return iter(list(self.items))
        perm = ch(n)
        return iter([self.items[i] for i in perm])

    def __len__(self):
        return len(self.items)

    def discard(self, x):
        self.items = [y for y in self.items if not (y == x)]

    def __repr__(self):
        return "<symset %d>" % len(self.items)


def _has_symbolic(k):
    if isinstance(k, (tuple, list, frozenset)):
        return any(_has_symbolic(x) for x in k)
    return _symbolic(k) or (hasattr(k, "sb") and _has_symbolic(getattr(k, "sb")))


def _key_eq(a, b):
    """Equality of dictionary keys with symbolic parts: a Python bool, deciding (forking) where the solver has to."""
    if isinstance(a, tuple) or isinstance(b, tuple):
        if not (isinstance(a, tuple) and isinstance(b, tuple)) or len(a) != len(b):
            return False
        for x, y in zip(a, b):
            if not _key_eq(x, y):
                return False
        return True
    if isinstance(a, SymBytes) or isinstance(b, SymBytes):
        if not isinstance(a, (SymBytes, bytes, bytearray)) or not isinstance(b, (SymBytes, bytes, bytearray)) or len(a) != len(b):
            return False
        return bool(a == b)
    try:
        return bool(a == b)
    except TypeError:
        return False


class SymKeyDict(dict):
    """A dict for module-level state of the code under test (caches, registries) that may be keyed by symbolic values: entries are kept
    in insertion order and looked up by solver-decided equality, so that 'the same key again' and 'another key' are both explored.
    With concrete keys only it behaves like a dict."""

    def __init__(self, *a, **k):
        dict.__init__(self)
        self._items = []
        if a or k:
            self.update(*a, **k)

    def _find(self, key):
        for i, (k, _) in enumerate(self._items):
            if _key_eq(k, key):
                return i
        return -1

    def __getitem__(self, key):
        i = self._find(key)
        if i < 0:
            if hasattr(type(self), "__missing__"):
                return type(self).__missing__(self, key)
            raise KeyError(key)
        return self._items[i][1]

    def __setitem__(self, key, value):
        i = self._find(key)
        if i < 0:
            self._items.append((key, value))
        else:
            self._items[i] = (self._items[i][0], value)

    def __delitem__(self, key):
        i = self._find(key)
        if i < 0:
            raise KeyError(key)
        del self._items[i]

    def __contains__(self, key):
        return self._find(key) >= 0

    def __len__(self):
        return len(self._items)

    def __iter__(self):
        return iter([k for k, _ in self._items])

    def __bool__(self):
        return bool(self._items)

    def __eq__(self, other):
        return self is other

    __hash__ = None

    def keys(self):
        return [k for k, _ in self._items]

    def values(self):
        return [v for _, v in self._items]

    def items(self):
        return list(self._items)

    def get(self, key, default=None):
        i = self._find(key)
        return default if i < 0 else self._items[i][1]

    def setdefault(self, key, default=None):
        i = self._find(key)
        if i < 0:
            self._items.append((key, default))
            return default
        return self._items[i][1]

    def pop(self, key, *default):
        i = self._find(key)
        if i < 0:
            if default:
                return default[0]
            raise KeyError(key)
        return self._items.pop(i)[1]

    def popitem(self):
        return self._items.pop()

    def clear(self):
        del self._items[:]

    def update(self, *a, **k):
        for src in a:
            for kk, v in (src.items() if hasattr(src, "items") else src):
                self[kk] = v
        for kk, v in k.items():
            self[kk] = v

    def copy(self):
        d = SymKeyDict()
        d._items = list(self._items)
        return d

    def __repr__(self):
        return "SymKeyDict(%d entries)" % len(self._items)
