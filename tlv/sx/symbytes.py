"""Byte strings with concrete length and symbolic elements."""
import z3
from .core import (simp, SymInt, SymBool, mk_bool, W, ctx, Unsupported, sym_and, sym_not, sym_or, _bv)


def _elt_to_int(e):
    """stored element (int | z3 BV8) -> Python int | SymInt"""
    if isinstance(e, int):
        return e
    return SymInt(e, 0, 255)


def _int_to_elt(x):
    """Python int | SymInt -> stored element, with Python's range check"""
    if isinstance(x, SymBool):
        x = SymInt.lift(x)
    if isinstance(x, SymInt):
        if x.lo < 0 or x.hi > 255:
            if sym_or(x < 0, x > 255):
                raise ValueError("byte must be in range(0, 256)")
        e = simp(x.at(8))
        if z3.is_bv_value(e):
            return e.as_long()
        return e
    if isinstance(x, int):
        if not 0 <= x <= 255:
            raise ValueError("byte must be in range(0, 256)")
        return int(x)
    raise TypeError("'%s' object cannot be interpreted as an integer" % type(x).__name__)


def elements_of(x):
    """Any bytes-like (native or proxy) -> list of stored elements, or None."""
    if isinstance(x, SymBytes):
        return x.e
    if isinstance(x, (bytes, bytearray, memoryview)):
        return list(bytes(x))
    return None


def _norm_bound(v, n, default):
    """Slice bound as Python does: None -> default; negative -> +n; clamp to [0, n].  Symbolic values are
    clamped first (one path each for >= n and <= 0 after adjustment) and only then concretised."""
    if v is None:
        return default
    if isinstance(v, SymBool):
        v = int(v)
    if isinstance(v, SymInt):
        if v >= n:
            return n
        if v < 0:
            v = v + n
            if isinstance(v, SymInt):
                if v <= 0:
                    return 0
        if isinstance(v, SymInt):
            v = v.concretise()
        return max(0, min(n, v))
    v = int(v)
    if v < 0:
        v += n
        if v < 0:
            v = 0
    return min(v, n)


class SymHex:
    """Result of SymBytes.hex(): only equality against text and case folding are meaningful."""

    def __init__(self, sb):
        self.sb = sb

    def lower(self):
        return self

    def upper(self):
        return self

    def __eq__(self, o):
        if isinstance(o, SymHex):
            return self.sb == o.sb
        if isinstance(o, str):
            try:
                b = bytes.fromhex(o)
            except ValueError:
                return False
            if len(o) != 2 * len(self.sb):
                return False
            return self.sb == b
        return False

    def __ne__(self, o):
        return sym_not(self.__eq__(o))

    def __hash__(self):
        raise Unsupported("hash of symbolic hex text")

    def __format__(self, spec):
        return "<symhex>"

    __str__ = __repr__ = lambda self: "<symhex>"

    def __add__(self, o):
        return "<symhex>" + str(o)

    def __radd__(self, o):
        return str(o) + "<symhex>"


class SymBytes:
    """Immutable.  self.e is a list of ints / z3 BV8 terms."""
    mutable = False

    def __init__(self, elements=()):
        self.e = list(elements)

    # -- helpers
    def _new(self, elements):
        return type(self)(elements)

    def is_concrete(self):
        return all(isinstance(x, int) for x in self.e)

    def concrete(self):
        """bytes value; symbolic elements are concretised by value forking."""
        out = []
        for x in self.e:
            if isinstance(x, int):
                out.append(x)
            else:
                out.append(_elt_to_int(x).concretise())
        return bytes(out)

    def bv(self):
        """One wide z3 bit-vector (big endian)."""
        if not self.e:
            raise Unsupported("empty bit-vector")
        ts = [z3.BitVecVal(x, 8) if isinstance(x, int) else x for x in self.e]
        return ts[0] if len(ts) == 1 else z3.Concat(*ts)

    @staticmethod
    def from_bv(t, n):
        if z3.is_bv_value(t):
            return SymBytes(list(t.as_long().to_bytes(n, "big")))
        els = []
        for i in range(n):
            hi = 8 * (n - i) - 1
            els.append(z3.Extract(hi, hi - 7, t))   # not simplified: t is an uninterpreted application in practice
        return SymBytes(els)

    # -- sequence protocol
    def __len__(self):
        return len(self.e)

    def __iter__(self):
        for x in self.e:
            yield _elt_to_int(x)

    def __getitem__(self, i):
        n = len(self.e)
        if isinstance(i, slice):
            if i.step not in (None, 1):
                if isinstance(i.start, (SymInt,)) or isinstance(i.stop, (SymInt,)):
                    raise Unsupported("symbolic extended slice")
                return self._new(self.e[i])
            a = _norm_bound(i.start, n, 0)
            b = _norm_bound(i.stop, n, n)
            return self._new(self.e[a:b])
        if isinstance(i, SymInt):
            if i >= n or i < -n:
                raise IndexError("index out of range")
            i = i.concretise()
        return _elt_to_int(self.e[i])

    def __add__(self, o):
        oe = elements_of(o)
        if oe is None:
            return NotImplemented
        return self._new(self.e + oe)

    def __radd__(self, o):
        oe = elements_of(o)
        if oe is None:
            return NotImplemented
        # the type of bytes + bytearray follows the left operand
        cls = SymByteArray if isinstance(o, bytearray) else SymBytes
        return cls(oe + self.e)

    def __mul__(self, k):
        return self._new(self.e * int(k))

    __rmul__ = __mul__

    def __eq__(self, o):
        oe = elements_of(o)
        if oe is None:
            if isinstance(o, SymHex):
                return False
            return False
        if len(oe) != len(self.e):
            return False
        conds = []
        for a, b in zip(self.e, oe):
            if isinstance(a, int) and isinstance(b, int):
                if a != b:
                    return False
                continue
            if a is b:
                continue
            ta = z3.BitVecVal(a, 8) if isinstance(a, int) else a
            tb = z3.BitVecVal(b, 8) if isinstance(b, int) else b
            if ta.eq(tb):
                continue
            conds.append(ta == tb)
        if not conds:
            return True
        return mk_bool(z3.And(*conds) if len(conds) > 1 else conds[0])

    def __ne__(self, o):
        return sym_not(self.__eq__(o))

    def __contains__(self, x):
        if isinstance(x, (int, SymInt)):
            for y in self:
                if y == x:
                    return True
            return False
        xe = elements_of(x)
        if xe is None:
            raise TypeError("a bytes-like object is required")
        k = len(xe)
        sub = SymBytes(xe)
        for i in range(0, len(self.e) - k + 1):
            if SymBytes(self.e[i:i + k]) == sub:
                return True
        return False

    def __hash__(self):
        return hash(self.concrete())

    def __bool__(self):
        return len(self.e) != 0

    def __bytes__(self):
        if self.is_concrete():
            return bytes(self.e)
        ctx().stats.realised += 1
        raise Unsupported("bytes(SymBytes) at a C boundary")

    def __deepcopy__(self, memo):
        return self._new(self.e)

    __copy__ = lambda self: self._new(self.e)

    # -- bytes API used by the repository
    def hex(self, *a):
        if self.is_concrete():
            return bytes(self.e).hex(*a)
        return SymHex(self)

    def decode(self, *a, **k):
        return self.concrete().decode(*a, **k)

    def rstrip(self, chars=None):
        if chars is None:
            chars = b" \t\n\r\x0b\x0c"
        cs = list(bytes(chars))
        n = len(self.e)
        while n > 0:
            last = _elt_to_int(self.e[n - 1])
            hit = False
            for ch in cs:
                if last == ch:
                    hit = True
                    break
            if not hit:
                break
            n -= 1
        return self._new(self.e[:n])

    def startswith(self, p, start=None, end=None):
        if isinstance(p, tuple):
            from .core import sym_or
            return sym_or(*[self.startswith(x, start, end) for x in p])
        pe = elements_of(p)
        sub = self[start:end] if (start is not None or end is not None) else self
        if len(pe) > len(sub):
            return False
        return SymBytes(sub.e[:len(pe)]) == SymBytes(pe)

    def endswith(self, p, start=None, end=None):
        pe = elements_of(p)
        sub = self[start:end] if (start is not None or end is not None) else self
        if len(pe) > len(sub):
            return False
        return SymBytes(sub.e[len(sub.e) - len(pe):]) == SymBytes(pe)

    def __repr__(self):
        if self.is_concrete():
            return repr(bytes(self.e))
        return "<symbytes len=%d>" % len(self.e)

    def __str__(self):
        return self.__repr__()

    def __format__(self, spec):
        return self.__repr__()

    def __lt__(self, o):
        raise Unsupported("ordering of symbolic bytes")

    def __reduce__(self):
        raise Unsupported("pickling SymBytes")


class SymByteArray(SymBytes):
    mutable = True

    def append(self, x):
        self.e.append(_int_to_elt(x))

    def extend(self, o):
        oe = elements_of(o)
        if oe is None:
            oe = [_int_to_elt(x) for x in o]
        self.e.extend(oe)

    def clear(self):
        self.e.clear()

    def __iadd__(self, o):
        self.extend(o)
        return self

    def __setitem__(self, i, v):
        n = len(self.e)
        if isinstance(i, slice):
            if i.step not in (None, 1):
                raise Unsupported("extended slice assignment")
            a = _norm_bound(i.start, n, 0)
            b = _norm_bound(i.stop, n, n)
            ve = elements_of(v)
            if ve is None:
                ve = [_int_to_elt(x) for x in v]
            self.e[a:b] = ve
            return
        if isinstance(i, SymInt):
            if i >= n or i < -n:
                raise IndexError("bytearray index out of range")
            i = i.concretise()
        self.e[i] = _int_to_elt(v)

    def __delitem__(self, i):
        if isinstance(i, slice):
            n = len(self.e)
            a = _norm_bound(i.start, n, 0)
            b = _norm_bound(i.stop, n, n)
            del self.e[a:b]
        else:
            del self.e[int(i)]

    def __hash__(self):
        raise TypeError("unhashable type: 'bytearray'")

    def pop(self, i=-1):
        return _elt_to_int(self.e.pop(int(i)))


def sym_bytes(name, n, mutable=False):
    """Register n named symbolic input bytes."""
    c = ctx()
    els = [z3.BitVec("%s[%d]" % (name, i), 8) for i in range(n)]
    c.inputs[name] = ("bytes", els)
    return (SymByteArray if mutable else SymBytes)(els)


def fresh_bytes(prefix, n):
    c = ctx()
    base = c.fresh_name(prefix)
    return SymBytes([z3.BitVec("%s[%d]" % (base, i), 8) for i in range(n)])


def mixed_bytes(name, parts):
    """parts: list of bytes | int(n symbolic) -> SymBytes; registers one input covering everything."""
    c = ctx()
    els = []
    k = 0
    for p in parts:
        if isinstance(p, int):
            for _ in range(p):
                els.append(z3.BitVec("%s[%d]" % (name, k), 8))
                k += 1
        else:
            for b in bytes(p):
                els.append(b)
                k += 1
    c.inputs[name] = ("bytes", els)
    return SymBytes(els)


def as_symbytes(x):
    if isinstance(x, SymBytes):
        return x
    return SymBytes(elements_of(x))


def bytes_eq(a, b):
    return as_symbytes(a) == b
