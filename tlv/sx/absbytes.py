"""Abstract byte strings with a symbolic length: only lengths, slicing and concatenation order are tracked (content is opaque).
Used where the code under test splits and measures data without looking at it (OutputBuilder)."""
from .core import SymInt, sym_ite, Unsupported


def _clamp_index(v, n, default):
    """Python slice-bound normalisation over symbolic ints, without forking."""
    if v is None:
        return default
    neg = v < 0
    v2 = sym_ite(neg, v + n, v)
    v3 = sym_ite(v2 < 0, 0, v2)
    return sym_ite(v3 > n, n, v3)


class AbsBytes:
    _sx_passthrough = True

    def __init__(self, base, start, stop):
        self.base, self.start, self.stop = base, start, stop

    @property
    def symlen(self):
        return self.stop - self.start

    def __getitem__(self, i):
        if not isinstance(i, slice) or i.step not in (None, 1):
            raise Unsupported("AbsBytes supports plain slices only")
        n = self.symlen
        a = _clamp_index(i.start, n, 0)
        b = _clamp_index(i.stop, n, n)
        b = sym_ite(b < a, a, b)
        return AbsBytes(self.base, self.start + a, self.start + b)

    def __len__(self):
        n = self.symlen
        if isinstance(n, int):
            return n
        raise Unsupported("len() of an abstract byte string outside a shimmed module")

    def __bytes__(self):
        return self

    def __repr__(self):
        return "<absbytes %s>" % self.base

    def __format__(self, spec):
        return "<absbytes>"

    def __eq__(self, o):
        return self is o

    def __hash__(self):
        return id(self)


def len_shim(x):
    if isinstance(x, AbsBytes):
        return x.symlen
    return len(x)
