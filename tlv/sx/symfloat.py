"""IEEE-754 binary64 values over z3 FP.  Only what the code under test needs: int<->float mixing,
+ - * /, comparisons (int vs float compared exactly, as CPython does), floor()."""
import z3
from .core import simp, SymInt, SymBool, mk_bool, W, ctx, Unsupported, _bv

F64 = z3.Float64()
RNE = z3.RNE()


def _fmag(x):
    return abs(float(x))


class SymFloat:
    """t: z3 FP term; mag: conservative bound on |value| (used to size float->int conversions)."""
    __slots__ = ("_t", "mag", "iv", "ratio", "expr", "_lazy")

    def __init__(self, t, mag=float(1 << (W - 4)), iv=None):
        self._t = t
        self.mag = mag
        self.iv = iv   # exact value as int | SymInt when the double is known to be integer-valued
        self.ratio = None
        self._lazy = None
        self.expr = None    # symbolic expression tree ('int', x) | ('const', c) | (op, left, right): which computation produced the value

    @property
    def t(self):
        if self._t is None and getattr(self, "_lazy", None) is not None:
            fn, (a, b) = self._lazy
            self._t = fn(a.t, b.t)
        if self._t is None:
            iv = self.iv
            if isinstance(iv, SymInt):
                m = max(abs(iv.lo), abs(iv.hi))
                bits = min(W, m.bit_length() + 2)
                self._t = z3.fpSignedToFP(RNE, z3.Extract(bits - 1, 0, iv.t), F64)  # exact: iv is representable
            else:
                self._t = z3.FPVal(float(iv), F64)
        return self._t

    @staticmethod
    def of_int_valued(iv):
        """iv is the exact (representable) integer value of the double."""
        m = max(abs(iv.lo), abs(iv.hi)) if isinstance(iv, SymInt) else abs(iv)
        return SymFloat(None, float(m), iv)

    def _ibits(self):
        m = int(min(self.mag, float(1 << (W - 4)))) + 2
        return min(W, m.bit_length() + 2)

    @staticmethod
    def from_int(x):
        if isinstance(x, SymInt):
            f = SymFloat.of_int_valued(rnd53(x))
        else:
            f = SymFloat.of_int_valued(int(float(x)))
        f.expr = ("int", x)
        return f

    @staticmethod
    def lift(x):
        if isinstance(x, SymFloat):
            return x
        if isinstance(x, SymInt):
            return SymFloat.from_int(x)
        if isinstance(x, (int, float)):
            if isinstance(x, int):
                return SymFloat.from_int(x)
            if float(x) == int(float(x)) and abs(x) < 2.0 ** 62:
                f = SymFloat.of_int_valued(int(float(x)))
            else:
                f = SymFloat(z3.FPVal(float(x), F64), _fmag(x))
            f.expr = ("const", float(x))
            return f
        raise Unsupported("float lift %r" % type(x))

    def _bin(self, o, fn, rev=False, mag=lambda a, b: a + b + 1.0, ifn=None, opname="?"):
        try:
            o = SymFloat.lift(o)
        except Unsupported:
            return NotImplemented
        ex = (opname, o.expr, self.expr) if rev else (opname, self.expr, o.expr)
        if ifn is not None and self.iv is not None and o.iv is not None:
            x, y = (o.iv, self.iv) if rev else (self.iv, o.iv)
            r = ifn(x, y)
            res = SymFloat.of_int_valued(rnd53(r) if isinstance(r, SymInt) else int(float(r)))
            res.expr = ex
            return res
        res = SymFloat(None, mag(self.mag, o.mag))
        res._lazy = (fn, (o, self) if rev else (self, o))
        res.expr = ex
        return res

    def __add__(self, o):
        return self._bin(o, lambda a, b: z3.fpAdd(RNE, a, b), opname="add", ifn=lambda x, y: x + y)

    __radd__ = __add__

    def __sub__(self, o):
        return self._bin(o, lambda a, b: z3.fpSub(RNE, a, b), opname="sub", ifn=lambda x, y: x - y)

    def __rsub__(self, o):
        return self._bin(o, lambda a, b: z3.fpSub(RNE, a, b), opname="sub", rev=True, ifn=lambda x, y: x - y)

    def __mul__(self, o):
        return self._bin(o, lambda a, b: z3.fpMul(RNE, a, b), opname="mul", mag=lambda a, b: a * b + 1.0, ifn=lambda x, y: x * y)

    __rmul__ = __mul__

    def __truediv__(self, o):
        return self._bin(o, lambda a, b: z3.fpDiv(RNE, a, b), opname="div", mag=lambda a, b: float(1 << (W - 4)))

    def __rtruediv__(self, o):
        return self._bin(o, lambda a, b: z3.fpDiv(RNE, a, b), opname="div", rev=True, mag=lambda a, b: float(1 << (W - 4)))

    def __neg__(self):
        return SymFloat.of_int_valued(-self.iv) if self.iv is not None else SymFloat(z3.fpNeg(self.t), self.mag)

    # exact integer floor / ceil of a finite float as W-bit signed vectors
    def _floor_bv(self):
        if self.iv is not None:
            return SymInt.coerce(self.iv)[0]
        b = self._ibits()
        t = z3.fpToSBV(z3.RTN(), self.t, z3.BitVecSort(b))
        return z3.SignExt(W - b, t) if b < W else t

    def _ceil_bv(self):
        if self.iv is not None:
            return SymInt.coerce(self.iv)[0]
        b = self._ibits()
        t = z3.fpToSBV(z3.RTP(), self.t, z3.BitVecSort(b))
        return z3.SignExt(W - b, t) if b < W else t

    def floor(self):
        if self.iv is not None:
            return self.iv
        # magnitude bound: doubles reaching here come from ints below 2**(W-2)
        return SymInt(self._floor_bv(), -(1 << (W - 3)), 1 << (W - 3))

    @staticmethod
    def compare_int(i, f, op):
        """i: SymInt, f: float | SymFloat ;  i <op> f with CPython's exact semantics (f finite)."""
        f = SymFloat.lift(f)
        it = i.t
        if op == "lt":   # i < f  <=>  i < ceil(f)
            return mk_bool(it < f._ceil_bv())
        if op == "le":   # i <= f <=>  i <= floor(f)
            return mk_bool(it <= f._floor_bv())
        if op == "gt":   # i > f  <=>  i > floor(f)
            return mk_bool(it > f._floor_bv())
        if op == "ge":
            return mk_bool(it >= f._ceil_bv())
        if op == "eq":
            return mk_bool(z3.And(it == f._floor_bv(), it == f._ceil_bv()))
        raise AssertionError(op)

    def _cmp(self, o, op):
        if isinstance(o, SymInt) or (isinstance(o, int) and not isinstance(o, bool)):
            o = o if isinstance(o, SymInt) else SymInt(_bv(o), o, o)
            inv = {"lt": "gt", "le": "ge", "gt": "lt", "ge": "le", "eq": "eq"}[op]
            return SymFloat.compare_int(o, self, inv)
        o = SymFloat.lift(o)
        fn = {"lt": z3.fpLT, "le": z3.fpLEQ, "gt": z3.fpGT, "ge": z3.fpGEQ, "eq": z3.fpEQ}[op]
        return mk_bool(fn(self.t, o.t))

    def __lt__(self, o):
        return self._cmp(o, "lt")

    def __le__(self, o):
        return self._cmp(o, "le")

    def __gt__(self, o):
        return self._cmp(o, "gt")

    def __ge__(self, o):
        return self._cmp(o, "ge")

    def __eq__(self, o):
        try:
            return self._cmp(o, "eq")
        except Unsupported:
            return False

    def __ne__(self, o):
        r = self.__eq__(o)
        return ~r if isinstance(r, SymBool) else (not r)

    def __hash__(self):
        raise Unsupported("hash of SymFloat")

    def __float__(self):
        ctx().stats.realised += 1
        raise Unsupported("float(SymFloat) at a C boundary")

    def __int__(self):
        if self.iv is not None:
            return self.iv
        # int() truncates toward zero
        b = self._ibits()
        t = z3.fpToSBV(z3.RTZ(), self.t, z3.BitVecSort(b))
        return SymInt(z3.SignExt(W - b, t) if b < W else t, -(1 << (W - 3)), 1 << (W - 3))

    def __repr__(self):
        return "<symfloat>"

    def __format__(self, spec):
        return "<symfloat>"


def rnd53(x):
    """Round-to-nearest-even of an integer to a 53-bit significand, as int -> double conversion does (pure BV)."""
    if not isinstance(x, SymInt):
        return int(float(x))
    m = max(abs(x.lo), abs(x.hi))
    if m < (1 << 53):
        return x
    K = m.bit_length() - 53
    neg = x.t < 0
    a = z3.If(neg, -x.t, x.t)
    r = a
    for k in range(1, K + 1):
        q = z3.LShR(a, k)
        rem = a & _bv((1 << k) - 1)
        half = _bv(1 << (k - 1))
        up = z3.Or(z3.UGT(rem, half), z3.And(rem == half, z3.Extract(0, 0, q) == 1))
        rk = z3.If(up, q + 1, q) << k
        r = z3.If(z3.UGE(a, _bv(1 << (52 + k))), rk, r)
    r = z3.If(neg, -r, r)
    bound = 1 << (m.bit_length())
    return SymInt.mk(r, -bound if x.lo < 0 else 0, bound)
