"""Expression-recording numbers for arithmetic lemmas over IEEE doubles.

`IntExpr` / `FloatExpr` objects are pushed through the *real code* (duck typing); every operation builds a node.  `to_z3` then turns
the recorded computation into z3 real arithmetic in the standard rounding-error model of IEEE-754 binary64: integer operations are
exact; every floating operation (and every int -> float conversion above 2^53) adds to its exact result an error of at most half an ulp
of the result's binade; x + 0.0, x * 1.0 and fmod are exact; float floor-division is an exact floor followed by one rounding.  The model over-approximates real double arithmetic, so `unsat` of a violated
post-condition holds for the real code, and a `sat` answer is only a candidate that has to be replayed."""
import z3

U = z3.RealVal(1) / z3.RealVal(2 ** 53)


def pow2(e):
    return z3.RealVal(2 ** e) if e >= 0 else z3.RealVal(1) / z3.RealVal(2 ** -e)


class Unsupported(Exception):
    pass


class _Expr:
    is_float = False

    def __init__(self, op, *args):
        self.op, self.args = op, args

    # comparisons would need the solver: the recorded computations are straight-line
    def __bool__(self):
        raise Unsupported("branch on a recorded value")

    def _cmp(self, o):
        raise Unsupported("comparison of a recorded value")

    __lt__ = __le__ = __gt__ = __ge__ = _cmp

    def __hash__(self):
        return id(self)


def _lift(x):
    if isinstance(x, _Expr):
        return x
    if isinstance(x, bool):
        x = int(x)
    if isinstance(x, int):
        return IntExpr("const", x)
    if isinstance(x, float):
        return FloatExpr("const", x)
    raise Unsupported("operand %r" % type(x))


def _bin(op, a, b):
    a, b = _lift(a), _lift(b)
    if a.is_float or b.is_float or op == "truediv":
        return FloatExpr(op, a, b)
    return IntExpr(op, a, b)


class IntExpr(_Expr):
    def __add__(self, o): return _bin("add", self, o)
    def __radd__(self, o): return _bin("add", o, self)
    def __sub__(self, o): return _bin("sub", self, o)
    def __rsub__(self, o): return _bin("sub", o, self)
    def __mul__(self, o): return _bin("mul", self, o)
    def __rmul__(self, o): return _bin("mul", o, self)
    def __truediv__(self, o): return _bin("truediv", self, o)
    def __rtruediv__(self, o): return _bin("truediv", o, self)
    def __floordiv__(self, o): return _bin("floordiv", self, o)
    def __rfloordiv__(self, o): return _bin("floordiv", o, self)
    def __mod__(self, o): return _bin("mod", self, o)
    def __rmod__(self, o): return _bin("mod", o, self)
    def __divmod__(self, o): return _bin("floordiv", self, o), _bin("mod", self, o)
    def __rdivmod__(self, o): return _bin("floordiv", o, self), _bin("mod", o, self)
    def __neg__(self): return _bin("sub", 0, self)

    def __lshift__(self, o):
        if not isinstance(o, int):
            raise Unsupported("shift by a recorded value")
        return IntExpr("mul", self, IntExpr("const", 1 << o))

    def __or__(self, o):
        return IntExpr("bitor", self, _lift(o))

    __ror__ = __or__

    def __and__(self, o):
        if isinstance(o, int) and (o + 1) & o == 0:
            return IntExpr("mod", self, IntExpr("const", o + 1))
        raise Unsupported("bit and")

    def __rshift__(self, o):
        if not isinstance(o, int):
            raise Unsupported("shift by a recorded value")
        return IntExpr("floordiv", self, IntExpr("const", 1 << o))

    def __float__(self):
        raise Unsupported("float() at a C boundary")

    def __index__(self):
        raise Unsupported("index at a C boundary")


class FloatExpr(IntExpr):
    is_float = True

    def __lshift__(self, o): raise TypeError("unsupported operand type(s) for <<: 'float' and 'int'")
    def __or__(self, o): raise TypeError("unsupported operand type(s) for |: 'float' and 'int'")
    __ror__ = __or__

    def __round__(self, nd=None):
        return IntExpr("round", self)

    def __int__(self):
        raise Unsupported("int() at a C boundary")


def var(name, bits):
    return IntExpr("var", name, bits)


class Model:
    """z3 translation of recorded expressions."""

    def __init__(self):
        self.cons = []
        self.vars = {}
        self.n = 0
        self.cache = {}

    def fresh(self, kind, sort=None):
        self.n += 1
        return (z3.Real if sort is None else sort)("%s%d" % (kind, self.n))

    LO, HI = -40, 90

    def err(self, x):
        """round-to-nearest of the real x: |fl(x) - x| <= 2^(e-53) with 2^e <= |x| < 2^(e+1) (half an ulp of x's binade).  The binade is
        an if-chain over e in LO..HI; below 2^LO the bound of 2^LO is used, above 2^HI the relative bound |x| * 2^-53 (both weaker)."""
        a = self.fresh("rnd")
        ax = z3.If(x >= 0, x, -x)
        p = ax
        for e in range(self.HI, self.LO - 1, -1):
            p = z3.If(ax < pow2(e + 1), pow2(e), p)
        self.cons += [a <= p * U, -a <= p * U]
        return x + a

    def floor_of(self, x):
        q = self.fresh("floor", z3.Int)
        self.cons += [z3.ToReal(q) <= x, x < z3.ToReal(q) + 1]
        return z3.ToReal(q)

    def to_float(self, e, t):
        """value of an integer expression after conversion to double"""
        return z3.If(z3.And(t <= 2 ** 53, t >= -(2 ** 53)), t, self.err(t))          # exact up to 2^53, rounded to nearest above

    def tr(self, e):
        k = id(e)
        if k in self.cache:
            return self.cache[k][1]
        r = self._tr(e)
        self.cache[k] = (e, r)          # keeps e alive: ids are not reused
        return r

    def _tr(self, e):
        op, a = e.op, e.args
        if op == "const":
            v = a[0]
            if isinstance(v, float):
                if v != v or v in (float("inf"), float("-inf")):
                    raise Unsupported("non-finite constant")
                from fractions import Fraction
                fr = Fraction(v)
                return z3.RealVal(fr.numerator) / z3.RealVal(fr.denominator)
            return z3.RealVal(v)
        if op == "var":
            name, bits = a
            if name not in self.vars:
                x = z3.Int(name)
                self.vars[name] = x
                self.cons += [x >= 0, x < 2 ** bits]
            return z3.ToReal(self.vars[name])
        x, y = (self.tr(a[0]), self.tr(a[1])) if len(a) == 2 else (self.tr(a[0]), None)
        fx = a[0].is_float
        fy = a[1].is_float if len(a) == 2 else False
        if not e.is_float:            # integer operation: exact
            if op in ("add", "bitor"):      # bitor: high << 32 | low with disjoint bits
                return x + y
            if op == "sub":
                return x - y
            if op == "mul":
                return x * y
            if op == "floordiv":
                return self.floor_of(x / y)
            if op == "mod":
                return x - self.floor_of(x / y) * y
            if op == "round":         # round-half-even of a double: |r - x| <= 1/2 (ties are not excluded)
                r = self.fresh("round", z3.Int)
                self.cons += [z3.ToReal(r) - x <= z3.RealVal(1) / 2, x - z3.ToReal(r) <= z3.RealVal(1) / 2]
                return z3.ToReal(r)
            raise Unsupported(op)
        # floating operation: operands are converted to double first
        if not fx:
            x = self.to_float(a[0], x) if a[0].op != "const" else x
        if y is not None and not fy:
            y = self.to_float(a[1], y) if a[1].op != "const" else y

        def is_const(node, value):
            return node.op == "const" and float(node.args[0]) == value
        if op == "add":
            if is_const(a[0], 0.0):
                return y
            if is_const(a[1], 0.0):
                return x
            return self.err(x + y)
        if op == "sub":
            if is_const(a[1], 0.0):
                return x
            return self.err(x - y)
        if op == "mul":
            if is_const(a[0], 1.0):
                return y
            if is_const(a[1], 1.0):
                return x
            return self.err(x * y)
        if op == "truediv":
            if is_const(a[1], 1.0):
                return x
            return self.err(x / y)
        if op == "mod":               # fmod is exact
            return x - self.floor_of(x / y) * y
        if op == "floordiv":          # (x - fmod(x, y)) / y, then floor: an integer-valued double
            return self.err(self.floor_of(x / y))
        raise Unsupported(op)


def recorded_timestamps(tsresol, tsoffset=0, le=True):
    """Run the real tlexport.dpkt_dsb.Reader over [SHB, IDB(if_tsresol, if_tsoffset), EPB, PB] whose tick words are recording variables;
    return the timestamp expressions it yields for the two packet blocks."""
    from tlv.harness import c12
    import tlexport.dpkt_dsb as dd
    record = []
    dpng, DsbBE, DsbLE = c12.make_dpng(le, record)
    saved = (dd.dpng, dd.DecryptionSecretBlock, dd.DecryptionSecretBlockLE)
    dd.dpng, dd.DecryptionSecretBlock, dd.DecryptionSecretBlockLE = dpng, DsbBE, DsbLE
    try:
        hi, lo = var("ts_high", 32), var("ts_low", 32)
        opts = [c12.Opt(9, tsresol)] + ([c12.Opt(14, tsoffset)] if tsoffset is not None else [])
        blocks = [{"type": c12.SHB}, {"type": c12.IDB, "opts": opts, "linktype": 1, "snaplen": 65535},
                  {"type": c12.EPB, "ts_high": hi, "ts_low": lo, "pkt_data": b"e"},
                  {"type": c12.PB, "ts_high": hi, "ts_low": lo, "pkt_data": b"p"}]
        got = list(dd.Reader(c12.FileModel(blocks)))
    finally:
        dd.dpng, dd.DecryptionSecretBlock, dd.DecryptionSecretBlockLE = saved
    return [t for t, _ in got]


def microsecond_query(ts_expr, divisor, whole_microsecond):
    """(solver, z3 model, vars) of: the writer's round(ts * 1e6) differs from the instant's microsecond count (< 2^51).
    whole_microsecond: the instant ticks/divisor is assumed to be a whole number of microseconds (general if_tsresol);
    otherwise divisor is 10^6 and the microsecond count is the tick count itself."""
    m = Model()
    ts = m.tr(_lift(ts_expr))
    written = m.err(ts * z3.RealVal(10 ** 6))          # dpkt writer: intround(ts * 1e6)
    hi, lo = m.tr(var("ts_high", 32)), m.tr(var("ts_low", 32))
    for k in ("ts_high", "ts_low"):
        if k not in m.vars:
            raise Unsupported("the timestamp does not depend on " + k)
    ticks = hi * (2 ** 32) + lo
    s = z3.Solver()
    s.set("timeout", 60000)
    s.add(*m.cons)
    if whole_microsecond == "nearest":
        # any instant: the written count is within one microsecond of it
        us_i, us = None, ticks * (10 ** 6) / divisor
        s.add(us >= 0, us < 2 ** 51)
        s.add(z3.Or(written - us >= 1, us - written >= 1))
        return s, m, us_i
    if whole_microsecond:
        us_i = z3.Int("microseconds")
        us = z3.ToReal(us_i)
        s.add(ticks * (10 ** 6) == us * divisor)
    else:
        us_i, us = None, ticks
    s.add(us >= 0, us < 2 ** 51)
    # round-half-even returns the instant iff |written - us| < 1/2 (ties cannot be excluded, so they count as failures)
    s.add(z3.Or(written - us >= z3.RealVal(1) / 2, us - written >= z3.RealVal(1) / 2))
    return s, m, us_i
