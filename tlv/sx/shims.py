"""Module-global shims for builtins that refuse proxies at the C boundary.  Each shim is the identity on
concrete values (validated in tlv/selftest.py against native results)."""
import builtins
import math
import struct as _struct
import re

import z3
from .core import SymInt, SymBool, ctx, Unsupported, W, _bv
from .symbytes import SymBytes, SymByteArray, elements_of, _int_to_elt, SymHex
from .symfloat import SymFloat

_int = builtins.int
_bytes = builtins.bytes
_bytearray = builtins.bytearray
_range = builtins.range


def _all_concrete(els):
    return all(isinstance(x, _int) for x in els)


class SymBigInt:
    """int.from_bytes of a string too long for a SymInt: supports only ==/!= against concrete ints."""

    def __init__(self, sb, byteorder):
        self.sb = sb
        self.byteorder = byteorder

    def __eq__(self, o):
        if isinstance(o, _int) and not isinstance(o, bool):
            n = len(self.sb)
            try:
                b = o.to_bytes(n, self.byteorder)
            except OverflowError:
                return False
            return self.sb == b
        raise Unsupported("SymBigInt comparison")

    def __ne__(self, o):
        from .core import sym_not
        return sym_not(self.__eq__(o))

    def __hash__(self):
        raise Unsupported("hash SymBigInt")

    def __getattr__(self, name):
        raise Unsupported("SymBigInt." + name)


class _IntMeta(type):
    def __instancecheck__(cls, inst):
        return isinstance(inst, (_int, SymInt))

    def __subclasscheck__(cls, sub):
        return issubclass(sub, _int)

    def __eq__(cls, o):
        return o is cls or o is _int

    def __hash__(cls):
        return hash(_int)


class IntShim(metaclass=_IntMeta):
    def __new__(cls, x=0, base=None):
        if base is not None:
            return _int(x, base)
        if isinstance(x, SymInt):
            return x
        if isinstance(x, SymBool):
            return SymInt.lift(x)
        if isinstance(x, SymFloat):
            return x.__int__()
        if isinstance(x, SymBytes):
            return _int(x.concrete())
        return _int(x)

    @staticmethod
    def from_bytes(b, byteorder="big", *, signed=False):
        if isinstance(b, SymBytes):
            els = b.e
        elif isinstance(b, (_bytes, _bytearray, memoryview)):
            return _int.from_bytes(b, byteorder, signed=signed)
        else:
            els = [_int_to_elt(x) for x in b]
        if signed:
            u = IntShim.from_bytes(b, byteorder)
            nbits = 8 * len(els)
            if isinstance(u, _int):
                return u - (1 << nbits) if nbits and u >> (nbits - 1) else u
            if isinstance(u, SymInt) and nbits <= W - 2:
                return u - ((u >> (nbits - 1)) << nbits)
            raise Unsupported("signed from_bytes of %d bytes" % len(els))
        if byteorder == "little":
            els = els[::-1]
        if _all_concrete(els):
            return _int.from_bytes(_bytes(els), "big")
        # strip leading concrete zeros
        k = 0
        while k < len(els) and isinstance(els[k], _int) and els[k] == 0:
            k += 1
        els = els[k:]
        n = len(els)
        if 8 * n > W - 2:
            return SymBigInt(SymBytes(els), "big")
        ts = [z3.BitVecVal(x, 8) if isinstance(x, _int) else x for x in els]
        t = ts[0] if n == 1 else z3.Concat(*ts)
        hi = 0
        for x in els:
            hi = (hi << 8) | (x if isinstance(x, _int) else 255)
        lo = 0
        for x in els:
            lo = (lo << 8) | (x if isinstance(x, _int) else 0)
        return SymInt.mk(t, lo, hi)

    @staticmethod
    def to_bytes(x, length=1, byteorder="big", *, signed=False):
        if isinstance(x, SymInt):
            return x.to_bytes(length, byteorder, signed=signed)
        if isinstance(x, SymBool):
            return SymInt.lift(x).to_bytes(length, byteorder, signed=signed)
        if isinstance(length, SymInt):
            length = length.concretise()
        return _int.to_bytes(x, length, byteorder, signed=signed)

    bit_length = _int.bit_length


class _BytesMeta(type):
    def __instancecheck__(cls, inst):
        return isinstance(inst, _bytes) or (isinstance(inst, SymBytes) and not inst.mutable)

    def __eq__(cls, o):
        return o is cls or o is _bytes

    def __hash__(cls):
        return hash(_bytes)


def _from_iterable(x):
    if isinstance(x, SymBytes):
        return list(x.e)
    if isinstance(x, (_bytes, _bytearray, memoryview)):
        return None
    if isinstance(x, str):
        raise TypeError("string argument without an encoding")
    els = [_int_to_elt(v) for v in x]
    return els


class BytesShim(metaclass=_BytesMeta):
    def __new__(cls, x=b"", encoding=None, errors=None):
        if encoding is not None:
            return _bytes(x, encoding) if errors is None else _bytes(x, encoding, errors)
        if isinstance(x, (_int, SymInt)) and not isinstance(x, bool):
            if isinstance(x, SymInt):
                x = x.concretise()
            return _bytes(x)
        if getattr(x, "_sx_passthrough", False):
            return x
        if isinstance(x, SymHex):
            raise TypeError("string argument without an encoding")
        if hasattr(x, "__bytes__") and not isinstance(x, (SymBytes, _bytes, _bytearray)):
            r = x.__bytes__()
            if isinstance(r, SymBytes):
                return r if not r.is_concrete() else _bytes(r.e)
            return _bytes(r)
        els = _from_iterable(x)
        if els is None:
            return _bytes(x)
        if _all_concrete(els):
            return _bytes(els)
        return SymBytes(els)

    @staticmethod
    def fromhex(s):
        if isinstance(s, SymHex):
            return s.sb if not s.sb.is_concrete() else _bytes(s.sb.e)
        return _bytes.fromhex(s)

    maketrans = staticmethod(_bytes.maketrans)

    @staticmethod
    def join(sep, parts):
        out = SymBytes([])
        first = True
        for p in parts:
            if not first:
                out = out + sep
            out = out + p
            first = False
        return out if not out.is_concrete() else _bytes(out.e)


class _ByteArrayMeta(type):
    def __instancecheck__(cls, inst):
        return isinstance(inst, (_bytearray, SymByteArray))

    def __eq__(cls, o):
        return o is cls or o is _bytearray

    def __hash__(cls):
        return hash(_bytearray)


class ByteArrayShim(metaclass=_ByteArrayMeta):
    """Always returns the proxy class so that later .extend()/.append() of symbolic data works."""

    def __new__(cls, x=b"", encoding=None):
        if encoding is not None:
            return SymByteArray(list(_bytearray(x, encoding)))
        if isinstance(x, (_int, SymInt)) and not isinstance(x, bool):
            if isinstance(x, SymInt):
                x = x.concretise()
            return SymByteArray([0] * x)
        els = _from_iterable(x)
        if els is None:
            els = list(_bytes(x))
        return SymByteArray(els)

    @staticmethod
    def fromhex(s):
        return SymByteArray(list(_bytes.fromhex(s)))


class RangeShim:
    """range() that accepts symbolic bounds: iteration forks on `i < stop`, so a huge attacker-chosen count is
    explored until the loop body itself raises."""

    def __new__(cls, *args):
        if all(isinstance(a, _int) for a in args):
            return _range(*args)
        return object.__new__(cls)

    def __init__(self, *args):
        if len(args) == 1:
            self.start, self.stop, self.step = 0, args[0], 1
        elif len(args) == 2:
            self.start, self.stop = args
            self.step = 1
        else:
            self.start, self.stop, self.step = args
        if isinstance(self.step, SymInt):
            self.step = self.step.concretise()
        if self.step == 0:
            raise ValueError("range() arg 3 must not be zero")

    def __iter__(self):
        i = self.start
        while True:
            if self.step > 0:
                if not (i < self.stop):
                    return
            else:
                if not (i > self.stop):
                    return
            yield i
            i = i + self.step

    def __len__(self):
        raise Unsupported("len(range) with symbolic bound")


def _parse_fmt(fmt):
    order = "@"
    if fmt and fmt[0] in "@=<>!":
        order = fmt[0]
        fmt = fmt[1:]
    items = []
    for m in re.finditer(r"\s*(\d*)([xcbB?hHiIlLqQnNefdspP])", fmt):
        cnt = _int(m.group(1)) if m.group(1) else 1
        items.append((cnt, m.group(2)))
    if re.sub(r"\s*(\d*)([xcbB?hHiIlLqQnNefdspP])", "", fmt).strip():
        raise _struct.error("bad char in struct format")
    return order, items


class StructShim:
    error = _struct.error
    calcsize = staticmethod(_struct.calcsize)
    pack = staticmethod(_struct.pack)
    Struct = _struct.Struct

    @staticmethod
    def unpack_from(fmt, buffer, offset=0):
        if not isinstance(buffer, SymBytes):
            return _struct.unpack_from(fmt, buffer, offset)
        order, items = _parse_fmt(fmt)
        if any(c not in "Bsx" for _, c in items):
            raise Unsupported("struct format " + fmt)
        size = sum(cnt for cnt, c in items)
        if len(buffer) - offset < size:
            raise _struct.error("unpack_from requires a buffer of at least %d bytes for unpacking %d bytes at offset "
                                "%d (actual buffer size is %d)" % (size + offset, size, offset, len(buffer)))
        out = []
        pos = offset
        for cnt, c in items:
            if c == "B":
                for _ in _range(cnt):
                    out.append(buffer[pos])
                    pos += 1
            elif c == "s":
                part = buffer[pos:pos + cnt]
                if part.is_concrete():
                    part = _bytes(part.e)
                else:
                    part = SymBytes(part.e)
                out.append(part)
                pos += cnt
            else:
                pos += cnt
        return tuple(out)

    @staticmethod
    def unpack(fmt, buffer):
        if not isinstance(buffer, SymBytes):
            return _struct.unpack(fmt, buffer)
        if _struct.calcsize(fmt) != len(buffer):
            raise _struct.error("unpack requires a buffer of %d bytes" % _struct.calcsize(fmt))
        return StructShim.unpack_from(fmt, buffer)


L1_MAX_N = 1 << 16
L1_MAX_K = 64


def floor_shim(x):
    if isinstance(x, SymFloat):
        r = x.ratio
        if r is not None and r[0].lo >= 0 and r[0].hi < L1_MAX_N and 1 <= r[1] <= L1_MAX_K:
            # Lemma L1: floor(fl(n / k)) == n // k for 0 <= n < 2^16, 1 <= k <= 64 (discharged by cvc5 for every k used)
            c = ctx()
            c.notes.setdefault("L1_k", set()).add(r[1])
            return r[0] // r[1]
        return x.floor()
    if isinstance(x, SymInt):
        return x
    return math.floor(x)


def ceil_shim(x):
    if isinstance(x, SymFloat):
        t = x._ceil_bv()
        return SymInt(t, -(1 << (W - 3)), 1 << (W - 3))
    if isinstance(x, SymInt):
        return x
    return math.ceil(x)


class MathShim:
    floor = staticmethod(floor_shim)
    ceil = staticmethod(ceil_shim)

    def __getattr__(self, n):
        return getattr(math, n)


def len_shim(x):
    return builtins.len(x)


def bool_shim(x=False):
    if isinstance(x, (SymBool,)):
        return x
    if isinstance(x, SymInt):
        return x != 0
    return builtins.bool(x)


def quiet_print(*a, **k):
    # evaluate nothing: arguments were already formatted by the caller
    return None


from .symdict import SymSet

SHIMS = {
    "set": SymSet,
    "int": IntShim,
    "bytes": BytesShim,
    "bytearray": ByteArrayShim,
    "range": RangeShim,
    "bool": bool_shim,
    "print": quiet_print,
}


def install(module, extra=None):
    """Inject the shims into a module's globals (name resolution in this process only)."""
    for k, v in SHIMS.items():
        setattr(module, k, v)
    if hasattr(module, "struct"):
        module.struct = StructShim
    if hasattr(module, "floor"):
        module.floor = floor_shim
    if hasattr(module, "math"):
        module.math = MathShim()
    if extra:
        for k, v in extra.items():
            setattr(module, k, v)


def uninstall(module):
    for k in SHIMS:
        if k in module.__dict__:
            delattr(module, k)
    if hasattr(module, "struct"):
        module.struct = _struct
    if "floor" in module.__dict__:
        module.floor = math.floor
    if "math" in module.__dict__:
        module.math = math


class SymAddr:
    """ipaddress.IPv4Address / IPv6Address of symbolic bytes: only identity, equality and logging are meaningful."""

    def __init__(self, sb, version):
        self.sb, self.version = sb, version

    def __str__(self):
        return self          # Session calls .__str__() explicitly and hands the result to the packet builder

    def __format__(self, spec):
        return "<symaddr>"

    def __repr__(self):
        return "<symaddr>"

    def __eq__(self, o):
        if isinstance(o, SymAddr):
            return self.sb == o.sb
        return False

    def __hash__(self):
        raise Unsupported("hash of symbolic address")

    def encode(self, *a):
        return self


def _addr_shim(version):
    import ipaddress
    real = ipaddress.IPv4Address if version == 4 else ipaddress.IPv6Address

    def make(x):
        if isinstance(x, SymBytes):
            if x.is_concrete():
                return real(_bytes(x.e))
            if len(x) != (4 if version == 4 else 16):
                raise ipaddress.AddressValueError("%r" % (x,))
            return SymAddr(x, version)
        return real(x)
    return make


def install_addr_shims(module):
    if hasattr(module, "IPv4Address"):
        module.IPv4Address = _addr_shim(4)
    if hasattr(module, "IPv6Address"):
        module.IPv6Address = _addr_shim(6)
