"""TLS connection scenarios: handshake shapes and application-record histories, produced by the reference endpoints."""
import hashlib
from tlv.oracle import tls as T


class SymSrc:
    """Free values are symbolic inputs."""

    def __init__(self, prefix=""):
        self.p = prefix

    def bytes(self, name, n):
        from tlv.sx.symbytes import sym_bytes
        if n == 0:
            return b""
        return sym_bytes(self.p + name, n)

    def choice(self, name, options):
        from tlv.sx.core import sym_choice
        return sym_choice(self.p + name, options)

    def flag(self, name):
        return self.choice(name, [False, True])


class ConcreteSrc:
    """Values from a recorded input dict (replay); anything not recorded is derived deterministically from its name."""

    def __init__(self, inputs, prefix=""):
        self.inp = inputs
        self.p = prefix

    def bytes(self, name, n):
        if n == 0:
            return b""
        v = self.inp.get(self.p + name)
        if v is not None:
            b = bytes.fromhex(v)
            assert len(b) == n, (name, n, len(b))
            return b
        out = b""
        i = 0
        while len(out) < n:
            out += hashlib.sha256((self.p + name + str(i)).encode()).digest()
            i += 1
        return out[:n]

    def choice(self, name, options):
        options = list(options)
        if len(options) == 1:
            return options[0]
        v = self.inp.get(self.p + name)
        if v is None:
            return options[int(hashlib.sha256((self.p + name).encode()).hexdigest(), 16) % len(options)]
        return options[v]

    def flag(self, name):
        return self.choice(name, [False, True])


class Item:
    """One TLS record on the wire."""

    def __init__(self, from_server, data, app=None, kind="", plain=None):
        self.from_server, self.data, self.app, self.kind = from_server, data, app, kind
        self.plain = plain      # handshake plaintext carried by an encrypted handshake record


def build(cfg, src):
    """cfg: version, suite code/name, shape options and bounds.  Returns (items, keylog, meta).
    keylog: list of (label, client_random bytes, secret bytes)."""
    version = cfg["version"]
    sp = T.SuiteParams(cfg["suite"], cfg["suite_name"])
    etm = bool(cfg.get("etm")) and sp.kind == "cbc"
    conn = T.Conn(version, sp, src, etm=etm)
    cr = src.bytes("client_random", 32)
    sr = src.bytes("server_random", 32)
    sid_len = cfg.get("sid_len", 0)
    sid = src.bytes("session_id", sid_len)
    items = []
    keylog = []
    ch_ver = version
    rec_ver_ch = T.u16(0x0301 if version not in ("SSL30",) else 0x0300)
    exts_ch = b""
    if version == "TLS13":
        exts_ch = T.ext(0x002b, b"\x02\x03\x04")
    if etm:
        exts_ch = T.cat(exts_ch, T.ext(0x0016, b"")) if exts_ch else T.ext(0x0016, b"")
    ch = T.client_hello(version, cr, sid, [cfg["suite"], 0x00ff], exts_ch)
    items.append(Item(False, T.cat(b"\x16", rec_ver_ch, T.u16(len(ch)), ch), kind="ClientHello"))

    exts_sh = b""
    if version == "TLS13":
        exts_sh = T.ext(0x002b, b"\x03\x04")
        exts_sh = T.cat(exts_sh, T.ext(0x0033, T.cat(b"\x00\x1d\x00\x02", src.bytes("key_share", 2))))
    if etm:
        exts_sh = T.cat(exts_sh, T.ext(0x0016, b"")) if exts_sh else T.ext(0x0016, b"")
    if cfg.get("extra_ext"):
        e = T.ext(0xff01, b"\x00")
        exts_sh = T.cat(e, exts_sh) if exts_sh else e
    omit = version in ("SSL30", "TLS10") and not exts_sh and cfg.get("omit_ext_block", True)
    sh_suite = cfg["suite"]
    if cfg.get("server_hello_suite_override"):
        sh_suite = src.bytes("server_hello_suite", 2)       # a code point chosen by the harness (e.g. outside TLExport's table)
    sh = T.server_hello(version, sr, sid, sh_suite, exts_sh, omit_ext_block=omit)

    def plain_rec(from_server, ctype, frag):
        return T.cat(T.u8(ctype), conn.vbytes, T.u16(len(frag)), frag)

    grouping = cfg.get("grouping", "separate")
    if version == "TLS13":
        items.append(Item(True, plain_rec(True, 0x16, sh), kind="ServerHello"))
        label_secrets = {}
        for lab in ("CLIENT_HANDSHAKE_TRAFFIC_SECRET", "SERVER_HANDSHAKE_TRAFFIC_SECRET", "CLIENT_TRAFFIC_SECRET_0", "SERVER_TRAFFIC_SECRET_0"):
            label_secrets[lab] = src.bytes(lab.lower(), sp.mac_hash.digest_size)
        hs_in_log = cfg.get("hs_secrets", True)
        for lab, sec in label_secrets.items():
            if "HANDSHAKE" in lab and not hs_in_log:
                continue
            keylog.append((lab, cr, sec))
        if cfg.get("compat_ccs"):
            items.append(Item(True, b"\x14\x03\x03\x00\x01\x01", kind="CCS"))
        conn.set_tls13_secret(True, label_secrets["SERVER_HANDSHAKE_TRAFFIC_SECRET"])
        ee = T.hs(8, b"\x00\x00")
        cert = T.hs(11, src.bytes("cert", 3))
        cv = T.hs(15, src.bytes("cert_verify", 2))
        fin_s = T.hs(20, src.bytes("server_finished", sp.mac_hash.digest_size))
        hpad = cfg.get("hs_pad", 0)
        if grouping == "separate":
            for m, k in ((ee, "EE"), (cert, "Cert"), (cv, "CV"), (fin_s, "Finished")):
                items.append(Item(True, conn.record(True, 0x16, m, pad=hpad), kind="enc-" + k))
        elif grouping == "one":
            items.append(Item(True, conn.record(True, 0x16, T.cat(ee, cert, cv, fin_s), pad=hpad), kind="enc-flight"))
        else:
            items.append(Item(True, conn.record(True, 0x16, T.cat(ee, cert), pad=hpad), kind="enc-EE+Cert"))
            items.append(Item(True, conn.record(True, 0x16, T.cat(cv, fin_s), pad=hpad), kind="enc-CV+Fin"))
        conn.set_tls13_secret(True, label_secrets["SERVER_TRAFFIC_SECRET_0"])
        if cfg.get("compat_ccs"):
            items.append(Item(False, b"\x14\x03\x03\x00\x01\x01", kind="CCS"))
        conn.set_tls13_secret(False, label_secrets["CLIENT_HANDSHAKE_TRAFFIC_SECRET"])
        fin_c = T.hs(20, src.bytes("client_finished", sp.mac_hash.digest_size))
        items.append(Item(False, conn.record(False, 0x16, fin_c, pad=hpad), kind="enc-Finished"))
        conn.set_tls13_secret(False, label_secrets["CLIENT_TRAFFIC_SECRET_0"])
    else:
        label = cfg.get("keylog_label", "CLIENT_RANDOM")
        if label == "RSA":
            pms = src.bytes("pre_master_secret", 48)
            ms = T.master_secret(version, sp.prf_hash, pms, cr, sr)
            keylog.append(("RSA", cr, pms))
        else:
            ms = src.bytes("master_secret", 48)
            keylog.append(("CLIENT_RANDOM", cr, ms))
        conn.install_tls12_keys(ms, cr, sr)
        abbreviated = cfg.get("abbreviated", False)
        cert = T.hs(11, src.bytes("cert", 3))
        ske = T.hs(12, src.bytes("ske", 2))
        shd = T.hs(14, b"")
        cke = T.hs(16, src.bytes("cke", 2))
        ccs = T.cat(b"\x14", conn.vbytes, b"\x00\x01\x01")
        fin_len = 36 if version == "SSL30" else 12

        def finished(from_server):
            conn.start_encryption(from_server)
            f = T.hs(20, src.bytes("finished_%s" % ("s" if from_server else "c"), fin_len))
            return Item(from_server, conn.record(from_server, 0x16, f), kind="enc-Finished", plain=f)
        if abbreviated:
            items.append(Item(True, plain_rec(True, 0x16, sh), kind="ServerHello"))
            items.append(Item(True, ccs, kind="CCS"))
            items.append(finished(True))
            items.append(Item(False, ccs, kind="CCS"))
            items.append(finished(False))
        else:
            if grouping == "separate":
                for m, k in ((sh, "ServerHello"), (cert, "Cert"), (ske, "SKE"), (shd, "SHD")):
                    items.append(Item(True, plain_rec(True, 0x16, m), kind=k))
            elif grouping == "one":
                items.append(Item(True, plain_rec(True, 0x16, T.cat(sh, cert, ske, shd)), kind="SH+Cert+SKE+SHD"))
            else:
                items.append(Item(True, plain_rec(True, 0x16, T.cat(sh, cert)), kind="SH+Cert"))
                items.append(Item(True, plain_rec(True, 0x16, T.cat(ske, shd)), kind="SKE+SHD"))
            items.append(Item(False, plain_rec(False, 0x16, cke), kind="CKE"))
            items.append(Item(False, ccs, kind="CCS"))
            items.append(finished(False))
            if cfg.get("session_ticket"):
                # RFC 5077 3.3: NewSessionTicket in the clear, after the client's Finished and before the server's ChangeCipherSpec
                items.append(Item(True, plain_rec(True, 0x16, T.hs(4, T.cat(b"\x00\x00\x0e\x10", T.u16(3), src.bytes("ticket", 3)))), kind="NewSessionTicket"))
            items.append(Item(True, ccs, kind="CCS"))
            items.append(finished(True))
    # ---- application data history
    k = cfg.get("records", 2)
    lens = cfg.get("lens")
    ticket_at = cfg.get("ticket_at")
    for i in range(k):
        if version == "TLS13" and ticket_at == i:
            items.append(Item(True, conn.record(True, 0x16, T.hs(4, src.bytes("ticket", 3))), kind="enc-NewSessionTicket"))
        if cfg.get("alert_at") == i:
            # a warning-level alert (close_notify) from the client, protected like any other record once keys are active
            items.append(Item(False, conn.record(False, 0x15, b"\x01\x00"), kind="alert"))
        from_server = src.flag("dir%d" % i) if cfg.get("sym_dirs", True) else bool(cfg["dirs"][i])
        n = lens[i] if lens else src.choice("len%d" % i, list(range(cfg.get("min_len", 0), cfg.get("max_len", 2) + 1)))
        pt = src.bytes("app%d" % i, n)
        pad = cfg.get("pad", 0) if version == "TLS13" else 0
        xb = cfg.get("extra_pad_blocks", 0)
        items.append(Item(from_server, conn.record(from_server, 0x17, pt, pad=pad, extra_pad_blocks=xb), app=pt, kind="app"))
    meta = {"conn": conn, "cr": cr, "sr": sr, "sp": sp, "sh_suite": sh_suite}
    return items, keylog, meta
