"""Reference QUIC v1 endpoints (RFC 9000, 9001, 9221) for building protected packets.  No repository code.
Uses the `cryptography` API only (ideal model in symbolic mode, the real library in replays)."""
from cryptography.hazmat.primitives import hashes
from cryptography.hazmat.primitives.ciphers import Cipher, algorithms, modes
from cryptography.hazmat.primitives.ciphers.aead import AESGCM, AESCCM, ChaCha20Poly1305
from cryptography.hazmat.primitives.kdf.hkdf import HKDF

from tlv.oracle.tls import cat, bxor, u8, u16, hkdf_expand_label, hs, ext
from tlv.oracle import quicframes as QF

SALT_V1 = bytes.fromhex("38762cf7f55934b34d179ae6a4c80cadccbb7f0a")

SUITES = {
    0x1301: {"hash": hashes.SHA256, "key_len": 16, "aead": "gcm", "hp": "aes"},
    0x1302: {"hash": hashes.SHA384, "key_len": 32, "aead": "gcm", "hp": "aes"},
    0x1303: {"hash": hashes.SHA256, "key_len": 32, "aead": "chacha", "hp": "chacha"},
    0x1304: {"hash": hashes.SHA256, "key_len": 16, "aead": "ccm", "hp": "aes"},
}
INITIAL_SUITE = {"hash": hashes.SHA256, "key_len": 16, "aead": "gcm", "hp": "aes"}


def level_keys(suite, secret):
    h = suite["hash"]
    return {"key": hkdf_expand_label(h, secret, b"quic key", b"", suite["key_len"]),
            "iv": hkdf_expand_label(h, secret, b"quic iv", b"", 12),
            "hp": hkdf_expand_label(h, secret, b"quic hp", b"", suite["key_len"]),
            "secret": secret, "suite": suite}


def next_generation(keys):
    """RFC 9001 section 6: new secret, key and iv; the header protection key is not updated."""
    suite = keys["suite"]
    h = suite["hash"]
    sec = hkdf_expand_label(h, keys["secret"], b"quic ku", b"", h.digest_size)
    return {"key": hkdf_expand_label(h, sec, b"quic key", b"", suite["key_len"]),
            "iv": hkdf_expand_label(h, sec, b"quic iv", b"", 12), "hp": keys["hp"], "secret": sec, "suite": suite}


def initial_keys(client_dcid):
    init = HKDF(hashes.SHA256(), length=32, salt=SALT_V1, info=None)._extract(client_dcid)
    c = hkdf_expand_label(hashes.SHA256, init, b"client in", b"", 32)
    s = hkdf_expand_label(hashes.SHA256, init, b"server in", b"", 32)
    return level_keys(INITIAL_SUITE, c), level_keys(INITIAL_SUITE, s)


def _aead(suite, key):
    if suite["aead"] == "gcm":
        return AESGCM(key)
    if suite["aead"] == "ccm":
        return AESCCM(key, 16)
    return ChaCha20Poly1305(key)


def hp_mask(suite, hp_key, sample):
    if suite["hp"] == "aes":
        e = Cipher(algorithms.AES(hp_key), modes.ECB()).encryptor()
        return cat(e.update(sample), e.finalize())[:5]
    e = Cipher(algorithms.ChaCha20(hp_key, sample), mode=None).encryptor()
    return e.update(b"\x00" * 5)


def varint(v, width=None):
    return QF.varint(v, width or QF.varint_min_width(v))


def protect(keys, header_wo_pn, pn, pn_len, payload, long_header):
    """header_wo_pn: header with an unprotected first byte (pn length bits set) up to, not including, the packet number.
    Returns the protected packet."""
    suite = keys["suite"]
    pn_bytes = (pn & ((1 << (8 * pn_len)) - 1)).to_bytes(pn_len, "big")
    # the sample starts 4 bytes after the start of the packet number field: pad so that it exists
    if pn_len + len(payload) < 4:
        payload = cat(payload, bytes(4 - pn_len - len(payload)))
    aad = cat(header_wo_pn, pn_bytes)
    nonce = bxor(keys["iv"], pn.to_bytes(12, "big"))
    ct = _aead(suite, keys["key"]).encrypt(nonce, payload, aad)
    sample = ct[4 - pn_len:4 - pn_len + 16]
    mask = hp_mask(suite, keys["hp"], sample)
    first = header_wo_pn[0] ^ (mask[0] & (0x0f if long_header else 0x1f))
    ppn = bxor(pn_bytes, mask[1:1 + pn_len])
    return cat(u8(first) if isinstance(first, int) else _one(first), header_wo_pn[1:], ppn, ct)


def _one(x):
    from tlv.sx.shims import BytesShim
    return BytesShim([x])


LONG_TYPES = {"initial": 0, "0rtt": 1, "handshake": 2, "retry": 3}


def long_packet(keys, ptype, dcid, scid, pn, pn_len, payload, token=b"", length_width=2, reserved=0):
    first = 0xC0 | (LONG_TYPES[ptype] << 4) | (reserved << 2) | (pn_len - 1)
    hdr = cat(u8(first), b"\x00\x00\x00\x01", u8(len(dcid)), dcid, u8(len(scid)), scid)
    if ptype == "initial":
        hdr = cat(hdr, varint(len(token)), token)
    body_len = pn_len + max(len(payload), 4 - pn_len) + 16
    hdr = cat(hdr, varint(body_len, length_width))
    return protect(keys, hdr, pn, pn_len, payload, True)


def short_packet(keys, dcid, pn, pn_len, payload, key_phase=0, spin=0):
    first = 0x40 | (spin << 5) | (key_phase << 2) | (pn_len - 1)
    hdr = cat(u8(first), dcid)
    return protect(keys, hdr, pn, pn_len, payload, False)


def retry_packet(dcid, scid, token, tag=None):
    first = 0xC0 | (3 << 4)
    return cat(u8(first), b"\x00\x00\x00\x01", u8(len(dcid)), dcid, u8(len(scid)), scid, token, tag if tag is not None else bytes(16))


# ---- TLS messages carried in CRYPTO frames --------------------------------------------------------------------------------

def client_hello(cr, suites, sid=b"", alpn=b"h3", tp=b"\x01\x02\x40\x64"):
    cs = b"".join(u16(c) for c in suites)
    exts = cat(ext(0x002b, b"\x02\x03\x04"), ext(0x0010, cat(u16(len(alpn) + 1), u8(len(alpn)), alpn)), ext(0x0039, tp))
    body = cat(b"\x03\x03", cr, u8(len(sid)), sid, u16(len(cs)), cs, b"\x01\x00", u16(len(exts)), exts)
    return hs(1, body)


def server_hello(sr, suite, sid=b""):
    exts = cat(ext(0x002b, b"\x03\x04"), ext(0x0033, b"\x00\x1d\x00\x02\xaa\xbb"))
    body = cat(b"\x03\x03", sr, u8(len(sid)), sid, u16(suite), b"\x00", u16(len(exts)), exts)
    return hs(2, body)


def encrypted_extensions(alpn=b"h3", tp=b"\x00\x01\x05"):
    exts = cat(ext(0x0010, cat(u16(len(alpn) + 1), u8(len(alpn)), alpn)), ext(0x0039, tp))
    return hs(8, cat(u16(len(exts)), exts))
