"""Frame construction from fields (concrete bytes or symbolic proxies) and RFC 1071 arithmetic.  No repository code."""


def _cat(parts):
    out = parts[0]
    for p in parts[1:]:
        out = out + p
    return out


def u16(n):
    return int(n).to_bytes(2, "big")


def u32(n):
    return int(n).to_bytes(4, "big")


def _word(data, i):
    if isinstance(data, (bytes, bytearray)):
        return (data[i] << 8) | data[i + 1]
    from tlv.sx.shims import IntShim
    return IntShim.from_bytes(data[i:i + 2], "big")


def fold16(total):
    # two folds are enough below 2^32
    total = (total & 0xFFFF) + (total >> 16)
    total = (total & 0xFFFF) + (total >> 16)
    return total


def rfc1071_sum(data):
    """One's-complement sum (folded to 16 bits) of a byte string, padded with a zero byte if odd.  Works on ints and proxies."""
    n = len(data)
    total = 0
    for i in range(0, n - 1, 2):
        total = total + _word(data, i)
    if n % 2:
        total = total + (data[n - 1] << 8)
    return fold16(total)


def pseudo_header(ipv6, src, dst, proto, seglen):
    if ipv6:
        return _cat([src, dst, u32(seglen), b"\x00\x00\x00", bytes([proto])])
    return _cat([src, dst, b"\x00", bytes([proto]), u16(seglen)])


def receiver_accepts(ipv6, src, dst, proto, segment):
    """RFC 1071 receiver rule: the one's-complement sum over pseudo header and segment, checksum field included, is all
    ones.  Computed as (sum of everything but the field) (+) field, which is the same number (the sum is commutative)."""
    off = 16 if proto == 6 else 6
    rest = _cat([pseudo_header(ipv6, src, dst, proto, len(segment)), segment[:off], b"\x00\x00", segment[off + 2:]])
    return fold16(rfc1071_sum(rest) + _word(segment, off)) == 0xFFFF


def checksum_for(ipv6, src, dst, proto, segment_with_zero_field):
    s = rfc1071_sum(_cat([pseudo_header(ipv6, src, dst, proto, len(segment_with_zero_field)), segment_with_zero_field]))
    return (~s) & 0xFFFF


def ip_header(ipv6, src, dst, proto, seglen, ident=0, ttl=64, options=b""):
    if ipv6:
        return _cat([b"\x60\x00\x00\x00", u16(seglen), bytes([proto, ttl]), src, dst])
    assert len(options) % 4 == 0
    hdr = _cat([bytes([0x45 + len(options) // 4, 0]), u16(20 + len(options) + seglen), u16(ident), b"\x40\x00", bytes([ttl, proto]), b"\x00\x00", src, dst, options])
    if isinstance(hdr, (bytes, bytearray)):
        c = (~rfc1071_sum(hdr)) & 0xFFFF
        hdr = hdr[:10] + u16(c) + hdr[12:]
    return hdr


def ethernet(dst_mac, src_mac, ipv6, payload):
    return _cat([dst_mac, src_mac, b"\x86\xdd" if ipv6 else b"\x08\x00", payload])


def tcp_segment(sport, dport, seq, ack, flags, payload, csum=b"\x00\x00", win=65535):
    return _cat([sport, dport, seq, ack, bytes([0x50, flags]), u16(win), csum, b"\x00\x00", payload])


def udp_segment(sport, dport, payload, csum=b"\x00\x00"):
    return _cat([sport, dport, u16(8 + len(payload)), csum, payload])


def concrete_tcp_frame(src_mac, dst_mac, ipv6, src, dst, sport, dport, seq, ack, flags, payload, ident=0):
    seg0 = tcp_segment(u16(sport), u16(dport), u32(seq & 0xFFFFFFFF), u32(ack & 0xFFFFFFFF), flags, payload)
    c = checksum_for(ipv6, src, dst, 6, seg0)
    seg = seg0[:16] + u16(c) + seg0[18:]
    return ethernet(dst_mac, src_mac, ipv6, ip_header(ipv6, src, dst, 6, len(seg), ident) + seg)


def concrete_udp_frame(src_mac, dst_mac, ipv6, src, dst, sport, dport, payload, ident=0):
    seg0 = udp_segment(u16(sport), u16(dport), payload)
    c = checksum_for(ipv6, src, dst, 17, seg0)
    if c == 0:
        c = 0xFFFF
    seg = seg0[:6] + u16(c) + seg0[8:]
    return ethernet(dst_mac, src_mac, ipv6, ip_header(ipv6, src, dst, 17, len(seg), ident) + seg)
