"""Minimal independent pcapng writer and strict reader, plus Ethernet/IP/TCP/UDP decoding with checksum verification and a
TCP stream reassembler.  Used only on concrete data (replays, validation).  No repository code, no dpkt, no scapy."""
import struct

from tlv.oracle import frames as F

BT_SHB, BT_IDB, BT_PB, BT_NRB, BT_ISB, BT_EPB, BT_DSB = 0x0A0D0D0A, 1, 2, 4, 5, 6, 0x0A
BOM = 0x1A2B3C4D


def _pad4(b):
    return b + b"\x00" * (-len(b) % 4)


def _opt(code, value, e):
    return struct.pack(e + "HH", code, len(value)) + _pad4(value)


def block(btype, body, e="<"):
    total = 12 + len(body)
    return struct.pack(e + "II", btype, total) + body + struct.pack(e + "I", total)


def shb(e="<"):
    return block(BT_SHB, struct.pack(e + "IHHq", BOM, 1, 0, -1), e)


def idb(e="<", linktype=1, snaplen=0x40000, tsresol=None, tsoffset=None):
    opts = b""
    if tsresol is not None:
        opts += _opt(9, bytes([tsresol]), e)
    if tsoffset is not None:
        opts += _opt(14, struct.pack(e + "q", tsoffset), e)
    if opts:
        opts += _opt(0, b"", e)
    return block(BT_IDB, struct.pack(e + "HHI", linktype, 0, snaplen) + opts, e)


def epb(data, ticks, e="<", iface=0):
    return block(BT_EPB, struct.pack(e + "IIIII", iface, (ticks >> 32) & 0xFFFFFFFF, ticks & 0xFFFFFFFF, len(data), len(data)) + _pad4(data), e)


def pb(data, ticks, e="<", iface=0):
    return block(BT_PB, struct.pack(e + "HHIIII", iface, 0, (ticks >> 32) & 0xFFFFFFFF, ticks & 0xFFFFFFFF, len(data), len(data)) + _pad4(data), e)


def dsb(secrets, e="<"):
    return block(BT_DSB, struct.pack(e + "II", 0x544c534b, len(secrets)) + _pad4(secrets), e)


def other_block(btype, body=b"", e="<"):
    return block(btype, _pad4(body), e)


def write_capture(path, packets, e="<", tsresol=None, dsbs=(), dsb_at=0, extra_blocks=(), ticks_per_s=1000000, packet_block="epb"):
    """packets: list of (frame bytes, seconds as exact int microsecond count or float).  dsbs inserted before packet index dsb_at.
    extra_blocks: list of (position, raw block)."""
    out = [shb(e), idb(e, tsresol=tsresol)]
    extra = list(extra_blocks)
    for i, (frame, ts) in enumerate(packets):
        if i == dsb_at:
            for d in dsbs:
                out.append(dsb(d, e))
        for pos, raw in extra:
            if pos == i:
                out.append(raw)
        ticks = ts if isinstance(ts, int) else int(round(ts * ticks_per_s))
        out.append((epb if packet_block == "epb" else pb)(frame, ticks, e))
    if dsb_at >= len(packets):
        for d in dsbs:
            out.append(dsb(d, e))
    for pos, raw in extra:
        if pos >= len(packets):
            out.append(raw)
    with open(path, "wb") as f:
        f.write(b"".join(out))


def write_legacy_pcap(path, packets, e="<", nano=False):
    """libpcap file, either byte order, microsecond (a1b2c3d4) or nanosecond (a1b23c4d) magic number"""
    out = [struct.pack(e + "IHHiIII", 0xA1B23C4D if nano else 0xA1B2C3D4, 2, 4, 0, 0, 0x40000, 1)]
    for frame, ts in packets:
        us = ts if isinstance(ts, int) else int(round(ts * 1000000))
        out.append(struct.pack(e + "IIII", us // 1000000, (us % 1000000) * (1000 if nano else 1), len(frame), len(frame)) + frame)
    with open(path, "wb") as f:
        f.write(b"".join(out))


class FormatError(Exception):
    pass


def read_capture(path):
    """Strict pcapng reader: -> list of (frame, ticks, ticks_per_second).  Raises FormatError on any malformation."""
    data = open(path, "rb").read()
    if len(data) < 28:
        raise FormatError("file shorter than a section header block")
    if struct.unpack("<I", data[:4])[0] != BT_SHB:
        raise FormatError("does not start with a section header block")
    bom = struct.unpack("<I", data[8:12])[0]
    e = "<" if bom == BOM else ">"
    if struct.unpack(e + "I", data[8:12])[0] != BOM:
        raise FormatError("bad byte-order magic")
    pos = 0
    ifaces = []
    out = []
    while pos < len(data):
        if len(data) - pos < 12:
            raise FormatError("trailing garbage")
        btype, blen = struct.unpack(e + "II", data[pos:pos + 8])
        if blen % 4 or blen < 12 or pos + blen > len(data):
            raise FormatError("bad block length %d at %d" % (blen, pos))
        if struct.unpack(e + "I", data[pos + blen - 4:pos + blen])[0] != blen:
            raise FormatError("trailing block length mismatch at %d" % pos)
        body = data[pos + 8:pos + blen - 4]
        if btype == BT_IDB:
            linktype, _, snaplen = struct.unpack(e + "HHI", body[:8])
            res = 1000000
            o = 8
            while o + 4 <= len(body):
                code, ln = struct.unpack(e + "HH", body[o:o + 4])
                val = body[o + 4:o + 4 + ln]
                if code == 0:
                    break
                if code == 9 and ln == 1:
                    res = 2 ** (val[0] & 0x7F) if val[0] & 0x80 else 10 ** val[0]
                o += 4 + ln + (-ln % 4)
            ifaces.append((linktype, res))
        elif btype == BT_EPB:
            iface, hi, lo, cap, orig = struct.unpack(e + "IIIII", body[:20])
            if iface >= len(ifaces):
                raise FormatError("packet for undeclared interface")
            if 20 + cap > len(body):
                raise FormatError("captured length exceeds block")
            out.append((body[20:20 + cap], (hi << 32) | lo, ifaces[iface][1]))
        pos += blen
    if not ifaces and out:
        raise FormatError("packets without interface description")
    return out


def decode_frame(frame):
    """-> dict with layers, verifying lengths and checksums; raises FormatError if anything is inconsistent."""
    if len(frame) < 14:
        raise FormatError("short ethernet frame")
    d = {"eth_dst": frame[0:6], "eth_src": frame[6:12], "ethertype": struct.unpack(">H", frame[12:14])[0]}
    ip = frame[14:]
    if d["ethertype"] == 0x0800:
        if len(ip) < 20 or ip[0] >> 4 != 4:
            raise FormatError("bad IPv4 header")
        ihl = (ip[0] & 0xF) * 4
        tot = struct.unpack(">H", ip[2:4])[0]
        if tot != len(ip):
            raise FormatError("IPv4 total length %d != %d" % (tot, len(ip)))
        if F.rfc1071_sum(ip[:ihl]) != 0xFFFF:
            raise FormatError("bad IPv4 header checksum")
        d.update(ipv=4, src=ip[12:16], dst=ip[16:20], proto=ip[9])
        seg = ip[ihl:]
    elif d["ethertype"] == 0x86DD:
        if len(ip) < 40 or ip[0] >> 4 != 6:
            raise FormatError("bad IPv6 header")
        plen = struct.unpack(">H", ip[4:6])[0]
        if plen != len(ip) - 40:
            raise FormatError("IPv6 payload length %d != %d" % (plen, len(ip) - 40))
        d.update(ipv=6, src=ip[8:24], dst=ip[24:40], proto=ip[6])
        seg = ip[40:]
    else:
        raise FormatError("ethertype %04x" % d["ethertype"])
    if d["proto"] == 6:
        if len(seg) < 20:
            raise FormatError("short TCP header")
        off = (seg[12] >> 4) * 4
        if off < 20 or off > len(seg):
            raise FormatError("bad TCP data offset")
        if not F.receiver_accepts(d["ipv"] == 6, d["src"], d["dst"], 6, seg):
            raise FormatError("bad TCP checksum")
        d.update(l4="tcp", sport=struct.unpack(">H", seg[0:2])[0], dport=struct.unpack(">H", seg[2:4])[0],
                 seq=struct.unpack(">I", seg[4:8])[0], ack=struct.unpack(">I", seg[8:12])[0], flags=seg[13], payload=seg[off:])
    elif d["proto"] == 17:
        if len(seg) < 8:
            raise FormatError("short UDP header")
        ulen = struct.unpack(">H", seg[4:6])[0]
        if ulen != len(seg):
            raise FormatError("UDP length %d != %d" % (ulen, len(seg)))
        if seg[6:8] != b"\x00\x00" and not F.receiver_accepts(d["ipv"] == 6, d["src"], d["dst"], 17, seg):
            raise FormatError("bad UDP checksum")
        if seg[6:8] == b"\x00\x00" and d["ipv"] == 6:
            raise FormatError("zero UDP checksum over IPv6")
        d.update(l4="udp", sport=struct.unpack(">H", seg[0:2])[0], dport=struct.unpack(">H", seg[2:4])[0], payload=seg[8:])
    else:
        raise FormatError("protocol %d" % d["proto"])
    return d


FIN, SYN, RST, PSH, ACK = 1, 2, 4, 8, 16


def reassemble(decoded):
    """Standard-reassembler view of the TCP conversations in a list of decoded frames (capture order).
    -> {(client (ip,port), server (ip,port)): {"c2s": bytes, "s2c": bytes, "problems": [...], "chunks": [...]}}"""
    convs = {}
    for i, d in enumerate(decoded):
        if d.get("l4") != "tcp":
            continue
        a, b = (d["src"], d["sport"]), (d["dst"], d["dport"])
        key = (a, b) if (a, b) in convs else ((b, a) if (b, a) in convs else None)
        if key is None:
            if d["flags"] & SYN and not d["flags"] & ACK:
                key = (a, b)
                convs[key] = {"c2s": b"", "s2c": b"", "problems": [], "chunks": [], "state": 0, "next": {}, "first_ts": d.get("ts")}
            else:
                convs[(a, b)] = {"c2s": b"", "s2c": b"", "problems": ["conversation does not open with SYN"], "chunks": [], "state": 3,
                                 "next": {}, "first_ts": d.get("ts")}
                key = (a, b)
        c = convs[key]
        from_client = (a, b) == key
        side = "c2s" if from_client else "s2c"
        fl = d["flags"]
        if fl & SYN:
            if c["state"] == 0 and from_client and not fl & ACK:
                c["next"]["c2s"] = (d["seq"] + 1) & 0xFFFFFFFF
                c["state"] = 1
            elif c["state"] == 1 and not from_client and fl & ACK:
                if d["ack"] != c["next"]["c2s"]:
                    c["problems"].append("SYN-ACK acknowledges %d" % d["ack"])
                c["next"]["s2c"] = (d["seq"] + 1) & 0xFFFFFFFF
                c["state"] = 2
            else:
                c["problems"].append("unexpected SYN at packet %d" % i)
            continue
        if c["state"] == 2 and from_client and fl & ACK and not d["payload"]:
            if d["seq"] != c["next"]["c2s"] or d["ack"] != c["next"]["s2c"]:
                c["problems"].append("handshake ACK has seq %d ack %d" % (d["seq"], d["ack"]))
            c["state"] = 3
            continue
        if c["state"] != 3:
            c["problems"].append("data before the three-way handshake completed (packet %d)" % i)
            c["next"].setdefault("c2s", d["seq"] if from_client else d["ack"])
            c["next"].setdefault("s2c", d["ack"] if from_client else d["seq"])
            c["state"] = 3
        other = "s2c" if from_client else "c2s"
        c["next"].setdefault(side, d["seq"])          # conversations that do not open with a handshake (already reported above)
        c["next"].setdefault(other, d["ack"])
        if d["payload"]:
            if d["seq"] != c["next"][side]:
                c["problems"].append("packet %d: seq %d, expected %d (gap or overlap)" % (i, d["seq"], c["next"][side]))
            c[side] += d["payload"]
            c["chunks"].append((side, d["payload"], d.get("ts"), i))
            c["next"][side] = (d["seq"] + len(d["payload"])) & 0xFFFFFFFF
        if fl & ACK and d["ack"] != c["next"][other]:
            c["problems"].append("packet %d acknowledges %d, peer has sent up to %d" % (i, d["ack"], c["next"][other]))
    return convs
