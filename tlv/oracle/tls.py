"""Reference TLS endpoint pair written from the RFCs (6101, 2246, 4346, 5246, 7366, 7905, 6655, 8446).  No repository code.

Everything goes through the `cryptography` API, so the same code runs on the ideal model (symbolic mode) and on the real
library (replay / validation).  All free values (randoms, secrets, plaintexts, explicit IVs, MAC bytes) are drawn from a `Src`."""
from cryptography.hazmat.primitives import hashes, hmac
from cryptography.hazmat.primitives.ciphers import Cipher, algorithms, modes
from cryptography.hazmat.primitives.ciphers.aead import AESGCM, AESCCM, ChaCha20Poly1305
from cryptography.hazmat.primitives.kdf.hkdf import HKDFExpand

from tlv.oracle import suites as suites_mod

VERSIONS = {"SSL30": 0x0300, "TLS10": 0x0301, "TLS11": 0x0302, "TLS12": 0x0303, "TLS13": 0x0304}


# ---- byte helpers that work on bytes and on proxies -----------------------------------------------------------------------

def cat(*parts):
    out = parts[0]
    for p in parts[1:]:
        out = out + p
    return out


def bxor(a, b):
    assert len(a) == len(b)
    if isinstance(a, (bytes, bytearray)) and isinstance(b, (bytes, bytearray)):
        return bytes(x ^ y for x, y in zip(a, b))
    from tlv.sx.shims import BytesShim
    return BytesShim([x ^ y for x, y in zip(a, b)])


def u8(n):
    return bytes([n])


def u16(n):
    return int(n).to_bytes(2, "big")


def u24(n):
    return int(n).to_bytes(3, "big")


def u64(n):
    if isinstance(n, int):
        return n.to_bytes(8, "big")
    return n.to_bytes(8, "big")


# ---- key schedules ---------------------------------------------------------------------------------------------------------

HASH = {"SHA1": hashes.SHA1, "SHA256": hashes.SHA256, "SHA384": hashes.SHA384, "MD5": hashes.MD5}


def _hmac(h, key, msg):
    m = hmac.HMAC(key, h())
    m.update(msg)
    return m.finalize()


def _hash(h, msg):
    d = hashes.Hash(h())
    d.update(msg)
    return d.finalize()


def p_hash(h, secret, seed, n):
    out = b""
    a = seed
    while len(out) < n:
        a = _hmac(h, secret, a)
        out = cat(out, _hmac(h, secret, cat(a, seed)))
    return out[:n]


def prf_tls10(secret, label, seed, n):
    half = (len(secret) + 1) // 2
    s1, s2 = secret[:half], secret[len(secret) - half:]
    return bxor(p_hash(hashes.MD5, s1, cat(label, seed), n), p_hash(hashes.SHA1, s2, cat(label, seed), n))


def prf_tls12(h, secret, label, seed, n):
    return p_hash(h, secret, cat(label, seed), n)


def prf_ssl3(secret, seed, n):
    out = b""
    i = 0
    while len(out) < n:
        i += 1
        salt = bytes([ord("A") + i - 1]) * i
        out = cat(out, _hash(hashes.MD5, cat(secret, _hash(hashes.SHA1, cat(salt, secret, seed)))))
    return out[:n]


def master_secret(version, prf_hash, pms, cr, sr):
    if version == "SSL30":
        return prf_ssl3(pms, cat(cr, sr), 48)
    if version in ("TLS10", "TLS11"):
        return prf_tls10(pms, b"master secret", cat(cr, sr), 48)
    return prf_tls12(prf_hash, pms, b"master secret", cat(cr, sr), 48)   # RFC 5246 8.1: the negotiated PRF


def key_block(version, prf_hash, ms, cr, sr, n):
    if version == "SSL30":
        return prf_ssl3(ms, cat(sr, cr), n)
    if version in ("TLS10", "TLS11"):
        return prf_tls10(ms, b"key expansion", cat(sr, cr), n)
    return prf_tls12(prf_hash, ms, b"key expansion", cat(sr, cr), n)


def hkdf_expand_label(h, secret, label, context, n):
    full = b"tls13 " + label
    info = cat(u16(n), u8(len(full)), full, u8(len(context)), context)
    return HKDFExpand(h(), n, info).derive(secret)


class SuiteParams:
    def __init__(self, code, name):
        p = suites_mod.parse_name(name)
        if p is None:
            raise ValueError("unparseable suite " + name)
        self.code, self.name = code, name
        self.__dict__.update(p)
        self.mac_hash = HASH[p["hash"]]
        self.mac_len = 0 if p["aead"] else self.mac_hash.digest_size
        self.prf_hash = hashes.SHA384 if p["hash"] == "SHA384" else hashes.SHA256
        if p["aead"]:
            self.kind = "chacha" if p["algorithm"] == "CHACHA20" else "aead"
        elif p["mode"] == "CBC":
            self.kind = "cbc"
        else:
            self.kind = "rc4"

    def fixed_iv_len(self, version):
        if self.kind == "aead":
            return 4
        if self.kind == "chacha":
            return 12
        if self.kind == "cbc" and version in ("SSL30", "TLS10"):
            return self.block_len
        return 0

    def behaviour_class(self):
        return (self.kind, self.algorithm, self.key_len, self.hash, self.tag_len, self.block_len)


def partition_key_block(version, sp, ms, cr, sr):
    """RFC 5246 6.3: client/server MAC, key, IV."""
    ivl = sp.fixed_iv_len(version)
    n = 2 * sp.mac_len + 2 * sp.key_len + 2 * ivl
    kb = key_block(version, sp.prf_hash, ms, cr, sr, n)
    o = 0
    out = {}
    for nm, ln in (("client_mac", sp.mac_len), ("server_mac", sp.mac_len), ("client_key", sp.key_len), ("server_key", sp.key_len),
                   ("client_iv", ivl), ("server_iv", ivl)):
        out[nm] = kb[o:o + ln]
        o += ln
    return out


def tls13_traffic_keys(sp, secret):
    return hkdf_expand_label(sp.mac_hash, secret, b"key", b"", sp.key_len), hkdf_expand_label(sp.mac_hash, secret, b"iv", b"", 12)


# ---- record protection -----------------------------------------------------------------------------------------------------

def _block_alg(sp, key):
    return {"AES": algorithms.AES, "CAMELLIA": algorithms.Camellia, "3DES": algorithms.TripleDES, "IDEA": algorithms.IDEA}[sp.algorithm](key)


def _aead(sp, key):
    if sp.kind == "chacha":
        return ChaCha20Poly1305(key)
    if sp.mode == "GCM":
        return AESGCM(key)
    return AESCCM(key, sp.tag_len)


class Side:
    """Write state of one endpoint."""

    def __init__(self):
        self.seq = 0
        self.key = self.iv = self.mac = None
        self.residue = None
        self.rc4 = None
        self.encrypted = False


class Conn:
    def __init__(self, version, sp, src, etm=False):
        self.version, self.sp, self.src, self.etm = version, sp, src, etm
        self.vbytes = u16(VERSIONS["TLS12" if version == "TLS13" else version])
        self.c, self.s = Side(), Side()
        self.n = 0

    def side(self, from_server):
        return self.s if from_server else self.c

    # -- keys
    def install_tls12_keys(self, ms, cr, sr):
        k = partition_key_block(self.version, self.sp, ms, cr, sr)
        self.c.key, self.c.iv, self.c.mac = k["client_key"], k["client_iv"], k["client_mac"]
        self.s.key, self.s.iv, self.s.mac = k["server_key"], k["server_iv"], k["server_mac"]
        for sd in (self.c, self.s):
            sd.residue = sd.iv
            if self.sp.kind == "rc4":
                sd.rc4 = Cipher(algorithms.ARC4(sd.key), mode=None).encryptor()
        self.keys = k

    def set_tls13_secret(self, from_server, secret):
        sd = self.side(from_server)
        sd.key, sd.iv = tls13_traffic_keys(self.sp, secret)
        sd.seq = 0
        sd.encrypted = True

    def start_encryption(self, from_server):
        sd = self.side(from_server)
        sd.encrypted = True
        sd.seq = 0

    # -- records
    def record(self, from_server, ctype, fragment, pad=0, extra_pad_blocks=0):
        """One TLSCiphertext (or TLSPlaintext before keys are active) carrying `fragment`."""
        sd = self.side(from_server)
        if not sd.encrypted:
            return cat(u8(ctype), self.vbytes, u16(len(fragment)), fragment)
        self.n += 1
        tag = "r%d" % self.n
        sp, ver = self.sp, self.version
        if ver == "TLS13":
            inner = cat(fragment, u8(ctype), bytes(pad))
            hdr = cat(b"\x17\x03\x03", u16(len(inner) + sp.tag_len))
            nonce = bxor(sd.iv, cat(bytes(4), u64(sd.seq)))
            payload = _aead(sp, sd.key).encrypt(nonce, inner, hdr)
            sd.seq += 1
            return cat(hdr, payload)
        hdr3 = cat(u8(ctype), self.vbytes)
        if sp.kind in ("aead", "chacha"):
            aad = cat(u64(sd.seq), hdr3, u16(len(fragment)))
            if sp.kind == "aead":
                explicit = self.src.bytes(tag + ".explicit_nonce", 8)
                payload = cat(explicit, _aead(sp, sd.key).encrypt(cat(sd.iv, explicit), fragment, aad))
            else:
                payload = _aead(sp, sd.key).encrypt(bxor(sd.iv, cat(bytes(4), u64(sd.seq))), fragment, aad)
            sd.seq += 1
            return cat(hdr3, u16(len(payload)), payload)
        macb = self.src.bytes(tag + ".mac", sp.mac_len)     # TLExport strips but never verifies MACs: opaque bytes
        if sp.kind == "rc4":
            payload = sd.rc4.update(cat(fragment, macb))
            sd.seq += 1
            return cat(hdr3, u16(len(payload)), payload)
        # CBC
        bs = sp.block_len
        body = fragment if self.etm else cat(fragment, macb)
        p = (bs - (len(body) + 1) % bs) % bs
        if ver != "SSL30":
            p += bs * extra_pad_blocks
            padding = bytes([p]) * (p + 1)
        else:
            padding = cat(self.src.bytes(tag + ".ssl3pad", p), u8(p))
        data = cat(body, padding)
        if ver in ("SSL30", "TLS10"):
            iv = sd.residue
            prefix = b""
        else:
            iv = self.src.bytes(tag + ".explicit_iv", bs)
            prefix = iv
        enc = Cipher(_block_alg(sp, sd.key), modes.CBC(iv)).encryptor()
        ct = cat(enc.update(data), enc.finalize())
        sd.residue = ct[len(ct) - bs:]
        payload = cat(prefix, ct, macb) if self.etm else cat(prefix, ct)
        sd.seq += 1
        return cat(hdr3, u16(len(payload)), payload)


# ---- handshake messages ----------------------------------------------------------------------------------------------------

def hs(msg_type, body):
    return cat(u8(msg_type), u24(len(body)), body)


def client_hello(version, cr, sid, suite_codes, exts=b""):
    legacy = u16(VERSIONS["TLS12" if version == "TLS13" else version])
    cs = b"".join(u16(c) for c in suite_codes)
    body = cat(legacy, cr, u8(len(sid)), sid, u16(len(cs)), cs, b"\x01\x00")
    if exts or version in ("TLS12", "TLS13"):
        body = cat(body, u16(len(exts)), exts)
    return hs(1, body)


def server_hello(version, sr, sid, suite_code, exts=b"", omit_ext_block=False):
    legacy = u16(VERSIONS["TLS12" if version == "TLS13" else version])
    body = cat(legacy, sr, u8(len(sid)), sid, u16(suite_code) if isinstance(suite_code, int) else suite_code, b"\x00")
    if not omit_ext_block:
        body = cat(body, u16(len(exts)), exts)
    return hs(2, body)


def ext(t, data):
    return cat(u16(t), u16(len(data)), data)
