"""Reference encoder for QUIC frames (RFC 9000 section 19, RFC 9221).  No repository code.

A frame spec is (type_byte, [field...]) where a field is
  ("vi", name)            variable-length integer
  ("len", name, of)       variable-length integer holding the length of the byte field `of`
  ("u8len", name, of)     one-byte length of the byte field `of`
  ("bytes", name)         byte string whose length is given by an earlier len field
  ("fixed", name, n)      n bytes
  ("rest", name)          bytes up to the end of the packet
  ("ranges", name, count_field)  count x (gap vi, length vi)
`attr` maps RFC field names to the attribute names TLExport's frame classes use."""

FRAMES = {
    "PADDING": (0x00, []),
    "PING": (0x01, []),
    "ACK": (0x02, [("vi", "largest_acknowledged"), ("vi", "ack_delay"), ("cnt", "range_count", "ack_ranges"),
                   ("vi", "first_ack_range"), ("ranges", "ack_ranges")]),
    "ACK_ECN": (0x03, [("vi", "largest_acknowledged"), ("vi", "ack_delay"), ("cnt", "range_count", "ack_ranges"),
                       ("vi", "first_ack_range"), ("ranges", "ack_ranges"),
                       ("vi", "ect_0_count"), ("vi", "ect_1_count"), ("vi", "ect_ce_count")]),
    "RESET_STREAM": (0x04, [("vi", "stream_id"), ("vi", "application_protocol_error_code"), ("vi", "final_size")]),
    "STOP_SENDING": (0x05, [("vi", "stream_id"), ("vi", "application_protocol_error_code")]),
    "CRYPTO": (0x06, [("vi", "offset"), ("len", "crypto_length", "crypto"), ("bytes", "crypto")]),
    "NEW_TOKEN": (0x07, [("len", "token_length", "token"), ("bytes", "token")]),
    "MAX_DATA": (0x10, [("vi", "maximum_data")]),
    "MAX_STREAM_DATA": (0x11, [("vi", "stream_id"), ("vi", "maximum_stream_data")]),
    "MAX_STREAMS_BIDI": (0x12, [("vi", "maximum_streams")]),
    "MAX_STREAMS_UNI": (0x13, [("vi", "maximum_streams")]),
    "DATA_BLOCKED": (0x14, [("vi", "maximum_data")]),
    "STREAM_DATA_BLOCKED": (0x15, [("vi", "stream_id"), ("vi", "maximum_stream_data")]),
    "STREAMS_BLOCKED_BIDI": (0x16, [("vi", "maximum_streams")]),
    "STREAMS_BLOCKED_UNI": (0x17, [("vi", "maximum_streams")]),
    "NEW_CONNECTION_ID": (0x18, [("vi", "sequence_number"), ("vi", "retire_prior_to"), ("u8len", "connection_id_length", "connection_id"),
                                 ("bytes", "connection_id"), ("fixed", "stateless_reset_token", 16)]),
    "RETIRE_CONNECTION_ID": (0x19, [("vi", "sequence_number")]),
    "PATH_CHALLENGE": (0x1a, [("fixed", "data", 8)]),
    "PATH_RESPONSE": (0x1b, [("fixed", "data", 8)]),
    "CONNECTION_CLOSE": (0x1c, [("vi", "error_code"), ("vi", "close_frame_type"), ("len", "reason_phrase_length", "reason_phrase"),
                                ("bytes", "reason_phrase")]),
    "CONNECTION_CLOSE_APP": (0x1d, [("vi", "error_code"), ("len", "reason_phrase_length", "reason_phrase"), ("bytes", "reason_phrase")]),
    "HANDSHAKE_DONE": (0x1e, []),
    "DATAGRAM": (0x30, [("rest", "payload")]),
    "DATAGRAM_LEN": (0x31, [("len", None, "payload"), ("bytes", "payload")]),
}
# STREAM 0x08..0x0f: bit0 FIN, bit1 LEN, bit2 OFF
for _t in range(0x08, 0x10):
    _f = [("vi", "stream_id")]
    if _t & 4:
        _f.append(("vi", "offset"))
    if _t & 2:
        _f += [("len", "data_length", "stream_data"), ("bytes", "stream_data")]
    else:
        _f.append(("rest", "stream_data"))
    FRAMES["STREAM_%02x" % _t] = (_t, _f)

CLASS_OF = {
    "PADDING": "PaddingFrame", "PING": "PingFrame", "ACK": "AckFrame", "ACK_ECN": "AckFrame", "RESET_STREAM": "ResetStreamFrame",
    "STOP_SENDING": "StopSendingFrame", "CRYPTO": "CryptoFrame", "NEW_TOKEN": "NewTokenFrame", "MAX_DATA": "MaxDataFrame",
    "MAX_STREAM_DATA": "MaxStreamDataFrame", "MAX_STREAMS_BIDI": "MaxStreamsFrame", "MAX_STREAMS_UNI": "MaxStreamsFrame",
    "DATA_BLOCKED": "DataBlockedFrame", "STREAM_DATA_BLOCKED": "StreamDataBlockedFrame", "STREAMS_BLOCKED_BIDI": "StreamsBlockedFrame",
    "STREAMS_BLOCKED_UNI": "StreamsBlockedFrame", "NEW_CONNECTION_ID": "NewConnectionIdFrame",
    "RETIRE_CONNECTION_ID": "RetireConnectionIdFrame", "PATH_CHALLENGE": "PathChallengeFrame", "PATH_RESPONSE": "PathResponseFrame",
    "CONNECTION_CLOSE": "ConnectionCloseFrame", "CONNECTION_CLOSE_APP": "ConnectionCloseFrame", "HANDSHAKE_DONE": "HandshakeDoneFrame",
    "DATAGRAM": "DatagramFrame", "DATAGRAM_LEN": "DatagramFrame",
}
for _t in range(0x08, 0x10):
    CLASS_OF["STREAM_%02x" % _t] = "StreamFrame"


def varint(value, width):
    """Encode value (int or symbolic int below 2^(8*width-2)) on exactly `width` bytes (non-minimal allowed)."""
    prefix = {1: 0, 2: 1, 4: 2, 8: 3}[width]
    v = value | (prefix << (8 * width - 2))
    if isinstance(v, int):
        return v.to_bytes(width, "big")
    return v.to_bytes(width, "big")


def varint_min_width(v):
    for w in (1, 2, 4, 8):
        if v < (1 << (8 * w - 2)):
            return w
    raise ValueError(v)


def encode(name, values, widths, cat=None):
    """values: field name -> int | symbolic int | bytes-like; widths: field name -> 1|2|4|8 for every varint field
    (for ranges: list of (gap_width, len_width)).  Returns the encoded frame (bytes or proxy)."""
    t, fields = FRAMES[name]
    out = bytes([t])
    for f in fields:
        kind = f[0]
        if kind == "vi":
            out = out + varint(values[f[1]], widths[f[1]])
        elif kind == "cnt":
            out = out + varint(len(values[f[2]]), widths[f[1]])
        elif kind == "len":
            out = out + varint(len(values[f[2]]), widths[f[1] or ("len:" + f[2])])
        elif kind == "u8len":
            out = out + bytes([len(values[f[2]])])
        elif kind in ("bytes", "rest", "fixed"):
            out = out + values[f[1]]
        elif kind == "ranges":
            for (gap, ln), (wg, wl) in zip(values[f[1]], widths[f[1]]):
                out = out + varint(gap, wg) + varint(ln, wl)
    return out
