"""Independent parser of IANA TLS cipher-suite names and the frozen registry copy.  No repository code."""
import json
import os
import re

_SPEC = os.path.join(os.path.dirname(os.path.dirname(os.path.dirname(os.path.abspath(__file__)))), "spec", "iana_tls_cipher_suites.json")


def registry():
    return {int(k, 16): v for k, v in json.load(open(_SPEC))["suites"].items()}


_CIPHERS = [
    # token regex, (algorithm, mode, aead, key bytes, block bytes, tag bytes)
    (r"AES_(128|256)_CBC", lambda m: ("AES", "CBC", False, int(m.group(1)) // 8, 16, None)),
    (r"AES_(128|256)_GCM", lambda m: ("AES", "GCM", True, int(m.group(1)) // 8, 16, 16)),
    (r"AES_(128|256)_CCM_8", lambda m: ("AES", "CCM", True, int(m.group(1)) // 8, 16, 8)),
    (r"AES_(128|256)_CCM", lambda m: ("AES", "CCM", True, int(m.group(1)) // 8, 16, 16)),
    (r"CAMELLIA_(128|256)_CBC", lambda m: ("CAMELLIA", "CBC", False, int(m.group(1)) // 8, 16, None)),
    (r"CAMELLIA_(128|256)_GCM", lambda m: ("CAMELLIA", "GCM", True, int(m.group(1)) // 8, 16, 16)),
    (r"3DES_EDE_CBC", lambda m: ("3DES", "CBC", False, 24, 8, None)),
    (r"IDEA_CBC", lambda m: ("IDEA", "CBC", False, 16, 8, None)),
    (r"RC4_128", lambda m: ("RC4", "STREAM", False, 16, None, None)),
    (r"CHACHA20_POLY1305", lambda m: ("CHACHA20", "POLY1305", True, 32, None, 16)),
]
_HASHES = {"SHA": "SHA1", "SHA256": "SHA256", "SHA384": "SHA384", "MD5": "MD5"}


def parse_name(name):
    """-> dict(algorithm, mode, aead, key_len, block_len, tag_len, hash) or None if the name uses primitives this
    parser does not know (NULL, DES, RC2, SEED, ARIA, export suites ...)."""
    m = re.fullmatch(r"TLS_(?:(.+)_WITH_)?(.+)", name)
    if not m:
        return None
    rest = m.group(2)
    for rx, mk in _CIPHERS:
        mm = re.match(rx + r"(?:_(SHA256|SHA384|SHA|MD5))?$", rest)
        if mm:
            alg, mode, aead, klen, blen, tlen = mk(mm)
            h = mm.group(mm.lastindex) if mm.lastindex and mm.group(mm.lastindex) in _HASHES else None
            if h is None:
                if not aead:
                    return None
                h = "SHA256"   # RFC 6655: CCM suites without a hash suffix use the SHA-256 PRF
            return {"algorithm": alg, "mode": mode, "aead": aead, "key_len": klen, "block_len": blen,
                    "tag_len": tlen if aead else None, "hash": _HASHES[h], "tls13": m.group(1) is None}
    return None


def valid_versions(name):
    """TLS versions a suite may be negotiated in (RFC 5246 appendix A.5 / RFC 8446 B.4)."""
    p = parse_name(name)
    if p is None:
        return []
    if p["tls13"]:
        return ["TLS13"]
    if p["aead"] or name.endswith(("SHA256", "SHA384")):
        return ["TLS12"]
    return ["SSL30", "TLS10", "TLS11", "TLS12"]
