"""QUIC v1 connection scenarios built by the reference endpoints: handshake + 1-RTT datagrams with STREAM data."""
from tlv.oracle import quic as Q, quicframes as QF
from tlv.oracle.tls import cat, u8, u16


class Dgram:
    def __init__(self, from_server, data, ts, stream=None, crypto=None, note=""):
        self.from_server, self.data, self.ts = from_server, data, ts
        self.stream = stream      # concatenation of the STREAM-frame data carried (None if none)
        self.crypto = crypto      # concatenation of CRYPTO-frame data carried, in frame order
        self.note = note
        self.dcid_len = 0         # length of the destination connection id of a short-header datagram


def frame(name, **values):
    widths = {}
    t, fields = QF.FRAMES[name]
    for f in fields:
        if f[0] in ("vi", "len", "cnt"):
            key = f[1] or ("len:" + f[2])
            widths[key] = values.pop("w_" + (f[1] or f[2]), None)
            if widths[key] is None:
                v = values.get(f[1]) if f[0] == "vi" else len(values[f[2]])
                widths[key] = QF.varint_min_width(v) if isinstance(v, int) else 8
        if f[0] == "ranges":
            widths[f[1]] = [(1, 1)] * len(values[f[1]])
    return QF.encode(name, values, widths)


def ack(largest, ranges=()):
    return frame("ACK", largest_acknowledged=largest, ack_delay=0, ack_ranges=list(ranges), first_ack_range=0)


def crypto(offset, data, w_offset=None, w_len=None):
    v = {"offset": offset, "crypto": data}
    if w_offset:
        v["w_offset"] = w_offset
    if w_len:
        v["w_crypto_length"] = w_len
    return frame("CRYPTO", **v)


def stream(sid, data, offset=None, fin=False, explicit_len=True):
    t = 0x08 | (4 if offset is not None else 0) | (2 if explicit_len else 0) | (1 if fin else 0)
    v = {"stream_id": sid, "stream_data": data}
    if offset is not None:
        v["offset"] = offset
    return frame("STREAM_%02x" % t, **v)


class Side:
    def __init__(self):
        self.pn = {"initial": 0, "handshake": 0, "app": 0}
        self.keys = {}


def build(cfg, src):
    """-> (datagrams, keylog, meta)"""
    suite_code = cfg["suite"]
    suite = Q.SUITES[suite_code]
    offered = cfg.get("offered", [suite_code])
    hlen = suite["hash"].digest_size
    cr = src.bytes("client_random", 32)
    sr = src.bytes("server_random", 32)
    odcid = src.bytes("odcid", cfg.get("odcid_len", 8))
    c_cid = src.bytes("client_cid", cfg.get("c_cid_len", 4))
    s_cid = src.bytes("server_cid", cfg.get("s_cid_len", 8))
    sec = {k: src.bytes(k.lower(), hlen) for k in ("CLIENT_HANDSHAKE_TRAFFIC_SECRET", "SERVER_HANDSHAKE_TRAFFIC_SECRET",
                                                 "CLIENT_TRAFFIC_SECRET_0", "SERVER_TRAFFIC_SECRET_0")}
    keylog = [(k, cr, v) for k, v in sec.items()]
    if cfg.get("zero_rtt"):
        sec["CLIENT_EARLY_TRAFFIC_SECRET"] = src.bytes("client_early_traffic_secret", hlen)
        keylog.append(("CLIENT_EARLY_TRAFFIC_SECRET", cr, sec["CLIENT_EARLY_TRAFFIC_SECRET"]))
    if cfg.get("keylog_order") == "reversed":
        keylog = keylog[::-1]
    C, S = Side(), Side()
    ci, si = Q.initial_keys(odcid)
    C.keys["initial"], S.keys["initial"] = ci, si
    C.keys["handshake"] = Q.level_keys(suite, sec["CLIENT_HANDSHAKE_TRAFFIC_SECRET"])
    S.keys["handshake"] = Q.level_keys(suite, sec["SERVER_HANDSHAKE_TRAFFIC_SECRET"])
    C.keys["app"] = Q.level_keys(suite, sec["CLIENT_TRAFFIC_SECRET_0"])
    S.keys["app"] = Q.level_keys(suite, sec["SERVER_TRAFFIC_SECRET_0"])
    C.gens, S.gens = [C.keys["app"]], [S.keys["app"]]
    if cfg.get("zero_rtt"):
        C.keys["early"] = Q.level_keys(suite, sec["CLIENT_EARLY_TRAFFIC_SECRET"])
    phase = {False: 0, True: 0}
    out = []
    t = [100]
    pnl = cfg.get("pn_len", {})

    def pn_len(key, default=1):
        v = pnl.get(key, default)
        if v == "choice":
            return src.choice("pnlen." + key, [1, 2, 3, 4])
        return v

    def nxt(side, space, gap=0):
        side.pn[space] += gap
        v = side.pn[space]
        side.pn[space] += 1
        return v

    def emit(from_server, packets, stream_data=None, crypto_data=None, note=""):
        data = packets[0]
        for p in packets[1:]:
            data = cat(data, p)
        d = Dgram(from_server, data, t[0], stream_data, crypto_data, note)
        if note.startswith("1-RTT"):
            d.dcid_len = len(c_cid) if from_server else cfg.get("s_cid_len", 8)
        out.append(d)
        t[0] += 1

    ch = Q.client_hello(cr, offered)
    sh = Q.server_hello(sr, suite_code)
    ee = Q.encrypted_extensions()
    flight_s = cat(ee, cat(b"\x0b\x00\x00\x03", src.bytes("cert", 3)), cat(b"\x14\x00\x00\x04", src.bytes("fin_s", 4)))
    fin_c = cat(b"\x14\x00\x00\x04", src.bytes("fin_c", 4))
    dcid_for_client = lambda: odcid if not C.pn.get("switched") else s_cid
    # ---- Retry (optional): the client restarts with the server-chosen connection id and a token
    token = b""
    first_odcid = odcid
    if cfg.get("retry"):
        emit(False, [Q.long_packet(ci, "initial", odcid, c_cid, nxt(C, "initial"), pn_len("c_init"), cat(crypto(0, ch), bytes(3)))], None, ch, "Initial(CH) before Retry")
        retry_scid = src.bytes("retry_scid", cfg.get("s_cid_len", 8))
        token = src.bytes("retry_token", cfg.get("token_len", 3))
        emit(True, [Q.retry_packet(c_cid, retry_scid, token)], note="Retry")
        odcid = retry_scid
        ci, si = Q.initial_keys(odcid)
        C.keys["initial"], S.keys["initial"] = ci, si
    # ---- ClientHello, possibly split over several CRYPTO frames / packets, possibly out of order
    split = cfg.get("crypto_split")
    if split:
        cuts = [0] + list(split) + [len(ch)]
        parts = [(cuts[i], ch[cuts[i]:cuts[i + 1]]) for i in range(len(cuts) - 1)]
        order = cfg.get("crypto_order", list(range(len(parts))))
        if cfg.get("crypto_packets", "one") == "one":
            payload = b""
            for i in order:
                payload = cat(payload, crypto(*parts[i])) if payload else crypto(*parts[i])
            emit(False, [Q.long_packet(ci, "initial", odcid, c_cid, nxt(C, "initial"), pn_len("c_init"), cat(payload, bytes(2)), token=token)],
                 None, b"".join(bytes(parts[i][1]) if isinstance(parts[i][1], (bytes, bytearray)) else b"" for i in order) or None, "Initial(CH split)")
        else:
            for i in order:
                emit(False, [Q.long_packet(ci, "initial", odcid, c_cid, nxt(C, "initial"), pn_len("c_init"), cat(crypto(*parts[i]), bytes(2)), token=token)],
                     None, parts[i][1], "Initial(CH part %d)" % i)
    else:
        pk = [Q.long_packet(ci, "initial", odcid, c_cid, nxt(C, "initial"), pn_len("c_init"), cat(crypto(0, ch), bytes(3)), token=token)]
        zs = None
        if cfg.get("zero_rtt"):
            zs = src.bytes("early_data", cfg.get("data_len", 2))
            pk.append(Q.long_packet(C.keys["early"], "0rtt", odcid, c_cid, nxt(C, "app"), pn_len("c_0rtt"), stream(0, zs)))
            if cfg.get("zero_rtt") == 2:
                # a second 0-RTT packet (next packet number) in the same datagram
                zs2 = src.bytes("early_data2", cfg.get("data_len", 2))
                pk.append(Q.long_packet(C.keys["early"], "0rtt", odcid, c_cid, nxt(C, "app"), pn_len("c_0rtt"), stream(0, zs2, offset=len(zs))))
                zs = cat(zs, zs2)
        emit(False, pk, zs, ch, "Initial(CH)" + ("+0-RTT" if zs is not None else ""))
    # ---- server flight: Initial(SH) + Handshake(EE..Fin) coalesced
    p_i = Q.long_packet(si, "initial", c_cid, s_cid, nxt(S, "initial"), pn_len("s_init"), cat(ack(0), crypto(0, sh)))
    p_h = Q.long_packet(S.keys["handshake"], "handshake", c_cid, s_cid, nxt(S, "handshake"), pn_len("s_hs"), crypto(0, flight_s))
    if cfg.get("coalesce", True):
        emit(True, [p_i, p_h], None, cat(sh, flight_s), "Initial(SH)+Handshake")
    else:
        emit(True, [p_i], None, sh, "Initial(SH)")
        emit(True, [p_h], None, flight_s, "Handshake")
    # ---- client: Initial(ACK) + Handshake(Fin)
    p_i = Q.long_packet(ci, "initial", s_cid, c_cid, nxt(C, "initial"), pn_len("c_init"), cat(ack(0), bytes(3)))
    p_h = Q.long_packet(C.keys["handshake"], "handshake", s_cid, c_cid, nxt(C, "handshake"), pn_len("c_hs"), cat(ack(0), crypto(0, fin_c)))
    emit(False, [p_i, p_h] if cfg.get("coalesce", True) else [p_h], None, fin_c, "Handshake(Fin)")
    # ---- server: HANDSHAKE_DONE (+ NEW_CONNECTION_ID)
    extra = b""
    new_s_cid = None
    if cfg.get("ncid"):
        new_s_cid = src.bytes("server_cid2", cfg.get("s_cid_len", 8))
        extra = frame("NEW_CONNECTION_ID", sequence_number=1, retire_prior_to=0, connection_id=new_s_cid,
                      stateless_reset_token=src.bytes("srt", 16))
    emit(True, [Q.short_packet(S.keys["app"], c_cid, nxt(S, "app"), pn_len("s_app"), cat(b"\x1e", extra, ack(0)) if extra else cat(b"\x1e", ack(0)))],
         note="1-RTT HANDSHAKE_DONE")
    # ---- application datagrams
    n = cfg.get("n_app", 2)
    dl = cfg.get("data_len", 2)
    mix = cfg.get("mix", "plain")
    cur_s_cid = s_cid
    gen = {False: 0, True: 0}
    pending_ack = False
    for i in range(n):
        from_server = src.flag("dir%d" % i) if cfg.get("sym_dirs", True) else bool(cfg["dirs"][i])
        side = S if from_server else C
        if cfg.get("ncid") and i >= cfg.get("ncid_at", 1):
            cur_s_cid = new_s_cid
        ku = cfg.get("key_update_at")
        if ku is not None and i in (ku if isinstance(ku, list) else [ku]):
            # the sender of this datagram initiates a key update; the peer follows with its next packet
            for sd, who in ((S, True), (C, False)):
                sd.keys["app"] = Q.next_generation(sd.keys["app"])
                sd.gens.append(sd.keys["app"])
            phase[True] ^= 1
            phase[False] ^= 1
            pending_ack = True
        data = src.bytes("data%d" % i, dl)
        dcid = c_cid if from_server else cur_s_cid
        sid = 0 if not from_server else 3
        if mix == "plain":
            payload = stream(sid, data)
            sdata = data
        elif mix == "offsets-descending":
            # the later datagram carries the earlier part of the stream (captured out of order / retransmitted)
            payload = stream(sid, data, offset=(n - 1 - i) * dl)
            sdata = data
        elif mix == "no-len":
            payload = cat(ack(i), stream(sid, data, explicit_len=False))
            sdata = data
        elif mix == "two-streams":
            d2 = src.bytes("data%db" % i, 1)
            payload = cat(stream(sid, data, offset=i), b"\x01", stream(sid + 4, d2, fin=True), bytes(2))
            sdata = cat(data, d2)
        else:   # "busy": ACK, PING, MAX_DATA, DATAGRAM, STREAM, PADDING
            payload = cat(ack(i + 9, [(2, 3)] if i % 2 == 0 else [(1, 1), (0, 2)]), b"\x01", frame("MAX_DATA", maximum_data=1000 + i), frame("DATAGRAM_LEN", payload=src.bytes("dg%d" % i, 1)),
                          stream(sid, data, offset=7 * i), bytes(2))
            sdata = data
        gap = cfg.get("pn_gap", 0)
        pkt = Q.short_packet(side.keys["app"], dcid, nxt(side, "app", gap), pn_len("s_app" if from_server else "c_app"), payload,
                             key_phase=phase[from_server])
        emit(from_server, [pkt], sdata, None, "1-RTT app %d" % i)
        if pending_ack:
            # RFC 9001 6.1/6.2: the peer answers in the new key phase before another update can be initiated
            peer = C if from_server else S
            pdcid = cur_s_cid if from_server else c_cid
            emit(not from_server, [Q.short_packet(peer.keys["app"], pdcid, nxt(peer, "app"), pn_len("c_app" if from_server else "s_app"),
                                                  cat(ack(i), bytes(2)), key_phase=phase[not from_server])], None, None, "1-RTT ACK in the new key phase")
            pending_ack = False
    if cfg.get("retransmit_server_hello"):
        # the server repeats its ServerHello in a new Initial packet (next packet number) after everything else: a spurious retransmission
        emit(True, [Q.long_packet(si, "initial", c_cid, s_cid, nxt(S, "initial"), pn_len("s_init"), cat(crypto(0, sh), bytes(2)))], None, None,
             "Initial(SH) retransmitted")
    cids = [odcid, c_cid, s_cid] + ([new_s_cid] if new_s_cid is not None else []) + ([first_odcid] if cfg.get("retry") else [])
    meta = {"cr": cr, "suite": suite, "odcid": odcid, "c_cid": c_cid, "s_cid": s_cid, "secrets": sec, "C": C, "S": S, "cids": cids}
    return out, keylog, meta
