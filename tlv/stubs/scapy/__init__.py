"""Recorder classes standing in for scapy in 'stub' mode: layers keep their fields (possibly symbolic) and compose with `/`."""
TLV_STUB = True
