class Frame:
    _sx_passthrough = True

    def __init__(self, layers):
        self.layers = layers

    def __truediv__(self, other):
        if isinstance(other, Frame):
            return Frame(self.layers + other.layers)
        if isinstance(other, Layer):
            return Frame(self.layers + [other])
        return Frame(self.layers + [Raw(other)])

    def layer(self, name):
        for l in self.layers:
            if l.name == name:
                return l
        return None

    def names(self):
        return [l.name for l in self.layers]

    def __bytes__(self):
        return self

    def __repr__(self):
        return "<Frame %s>" % "/".join(self.names())


class Layer:
    name = None
    _sx_passthrough = True

    def __init__(self, *args, **fields):
        self.fields = fields
        self.args = args

    def __truediv__(self, other):
        return Frame([self]) / other

    def __getattr__(self, k):
        try:
            return self.__dict__["fields"][k]
        except KeyError:
            raise AttributeError(k)


class Raw(Layer):
    name = "Raw"

    def __init__(self, load=b"", **kw):
        super().__init__(load=load, **kw)
