from scapy.packet import Layer


class Ether(Layer):
    name = "Ether"
