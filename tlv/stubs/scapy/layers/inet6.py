from scapy.packet import Layer


class IPv6(Layer):
    name = "IPv6"
