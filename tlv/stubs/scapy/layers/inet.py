from scapy.packet import Layer


class IP(Layer):
    name = "IP"


class TCP(Layer):
    name = "TCP"


class UDP(Layer):
    name = "UDP"
