"""Shared machinery of the ideal model."""
import z3
from tlv.sx.core import ctx, SymInt, Unsupported
from tlv.sx.symbytes import SymBytes, elements_of, fresh_bytes, as_symbytes


def to_sb(x, what="data"):
    e = elements_of(x)
    if e is None:
        raise TypeError("%s must be bytes-like, not %s" % (what, type(x).__name__))
    return SymBytes(e)


def bv_of(sb):
    """Wide bit-vector of a byte string (None for the empty string)."""
    if len(sb) == 0:
        return None
    return sb.bv()


_UF_CACHE = {}


def _key_of(sb):
    return tuple(x if isinstance(x, int) else -1 - x.get_id() for x in sb.e)


def uf_bytes(name, args, out_len):
    """Apply the uninterpreted function `name` (one per argument-length signature) to byte strings -> out_len bytes."""
    c = ctx()
    sig_name = name + "".join("_%d" % len(a) for a in args) + "__%d" % out_len
    ck = (sig_name,) + tuple(_key_of(a) for a in args)
    hit = _UF_CACHE.get(ck)
    if hit is not None:
        c.has_uf = True
        out = SymBytes(hit[1])
        _collision_free(c, sig_name, ck, args, out)
        return out
    terms = [bv_of(a) for a in args]
    nz = [t for t in terms if t is not None]
    sorts = [t.sort() for t in nz] + [z3.BitVecSort(8 * out_len)]
    if not nz:
        return SymBytes.from_bv(z3.BitVec(sig_name + "_const", 8 * out_len), out_len)
    f = c.uf(sig_name, *sorts)
    out = SymBytes.from_bv(f(*nz), out_len)
    if len(_UF_CACHE) > 200000:
        _UF_CACHE.clear()
    _UF_CACHE[ck] = ([list(a.e) for a in args], list(out.e))   # argument elements are kept alive so that AST ids stay valid
    _collision_free(c, sig_name, ck, args, out)
    return out


def _collision_free(c, sig_name, ck, args, out):
    """Optional idealisation (fault scenarios): applications of a hash / KDF to different inputs give different outputs.
    Enabled by ctx.path_data['collision_free'] = True; instances are added pairwise per function signature."""
    if not c.path_data.get("collision_free"):
        return
    reg = c.path_data.setdefault("uf_apps", {}).setdefault(sig_name, {})
    if ck in reg:
        return
    nz = [a for a in args if len(a) > 0]
    for ck2, (args2, out2) in reg.items():
        same = [a.bv() == b.bv() for a, b in zip(nz, [x for x in args2 if len(x) > 0])]
        axiom(z3.Or(z3.And(*same) if same else z3.BoolVal(True), out.bv() != out2.bv()))
    reg[ck] = (list(args), out)


def same_terms(a, b):
    """Syntactic identity of two element lists."""
    if len(a) != len(b):
        return False
    for x, y in zip(a, b):
        if x is y:
            continue
        if isinstance(x, int) or isinstance(y, int):
            if isinstance(x, int) and isinstance(y, int) and x == y:
                continue
            return False
        if not x.eq(y):
            return False
    return True


def axiom(t):
    """A fact about the interpretation of the primitives (always satisfiable together with the others)."""
    c = ctx()
    if not c.replaying():
        c.solver.add(t)
    c.model = None


def events(kind):
    return ctx().path_data.setdefault("crypto_events_" + kind, [])
