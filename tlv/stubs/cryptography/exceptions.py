class InvalidTag(Exception):
    pass


class AlreadyFinalized(Exception):
    pass


class UnsupportedAlgorithm(Exception):
    pass
