"""Ideal-cryptography model used by the symbolic checks (shadows the real package in 'stub' mode only).
Hashes, HMAC, HKDF, block-cipher permutations, RC4/ChaCha20 key streams are uninterpreted functions decided by z3;
AEAD is an ideal-cipher event table (encrypt registers, decrypt succeeds only for a registered ciphertext under the same key,
nonce and associated data).  Every class enforces the argument contracts of the real API."""
__version__ = "0.0-tlv-ideal-model"
TLV_STUB = True
