"""Cipher contexts.  CBC/ECB: ideal block cipher as an uninterpreted permutation pair (E, D) per algorithm and key size with the
instance axiom D(k, E(k, x)) = x added for every block that is encrypted, so CBC chaining, wrong IVs, wrong keys, shifted or
truncated ciphertexts all behave as the real mode does, up to the permutation itself.  RC4 / ChaCha20: key stream as an
uninterpreted function of (key, position)."""
import z3
from cryptography._model import to_sb, bv_of, axiom, uf_bytes
from cryptography.hazmat.primitives.ciphers import algorithms, modes
from tlv.sx.core import ctx, SymInt, Unsupported, simp
from tlv.sx.symbytes import SymBytes


def _perm(alg, direction):
    c = ctx()
    kbits = 8 * len(alg.key)
    return c.uf("%s_%s_k%d" % (direction, alg.name, kbits), z3.BitVecSort(kbits), z3.BitVecSort(alg.block_size),
                z3.BitVecSort(alg.block_size))


def _xor(a, b):
    out = []
    for x, y in zip(a.e, b.e):
        if isinstance(x, int) and isinstance(y, int):
            out.append(x ^ y)
        else:
            tx = z3.BitVecVal(x, 8) if isinstance(x, int) else x
            ty = z3.BitVecVal(y, 8) if isinstance(y, int) else y
            t = simp(tx ^ ty)
            out.append(t.as_long() if z3.is_bv_value(t) else t)
    return SymBytes(out)


class _BlockCtx:
    def __init__(self, alg, mode, encrypt):
        self.alg, self.mode, self.encrypt = alg, mode, encrypt
        self.bs = alg.block_size // 8
        self.buf = SymBytes([])
        self.prev = mode.initialization_vector if isinstance(mode, modes.CBC) else None
        self.done = False

    def _block(self, blk):
        k = bv_of(self.alg.key)
        E, D = _perm(self.alg, "E"), _perm(self.alg, "D")
        if self.encrypt:
            x = _xor(blk, self.prev) if self.prev is not None else blk
            c = E(k, x.bv())
            axiom(D(k, c) == x.bv())
            out = SymBytes.from_bv(c, self.bs)
            if self.prev is not None:
                self.prev = out
            return out
        p = SymBytes.from_bv(D(k, blk.bv()), self.bs)
        if self.prev is not None:
            p = _xor(p, self.prev)
            self.prev = blk
        return p

    def update(self, data):
        if self.done:
            from cryptography.exceptions import AlreadyFinalized
            raise AlreadyFinalized("Context was already finalized.")
        self.buf = self.buf + to_sb(data)
        out = SymBytes([])
        while len(self.buf) >= self.bs:
            blk = SymBytes(self.buf.e[:self.bs])
            self.buf = SymBytes(self.buf.e[self.bs:])
            out = out + self._block(blk)
        return out

    def finalize(self):
        if self.done:
            from cryptography.exceptions import AlreadyFinalized
            raise AlreadyFinalized("Context was already finalized.")
        self.done = True
        if len(self.buf) != 0:
            raise ValueError("The length of the provided data is not a multiple of the block length.")
        return b""


class _StreamCtx:
    """out[i] = in[i] xor KS(key, position + i); position persists across update() calls (RC4 semantics)."""

    def __init__(self, name, key, extra=None, position=0):
        self.name, self.key, self.extra = name, key, extra
        self.position = position
        self.done = False

    def update(self, data):
        d = to_sb(data)
        c = ctx()
        kb = bv_of(self.key)
        args = [kb] + ([bv_of(self.extra)] if self.extra is not None else [])
        f = c.uf("KS_%s_k%d" % (self.name, kb.size()), *([a.sort() for a in args] + [z3.BitVecSort(64), z3.BitVecSort(8)]))
        out = []
        for i, x in enumerate(d.e):
            pos = self.position + i
            pt = pos.at(64) if isinstance(pos, SymInt) else z3.BitVecVal(pos, 64)
            ks = f(*(args + [pt]))
            tx = z3.BitVecVal(x, 8) if isinstance(x, int) else x
            t = simp(tx ^ ks)
            out.append(t)
        self.position = self.position + len(d)
        return SymBytes(out)

    def finalize(self):
        self.done = True
        return b""


class Cipher:
    def __init__(self, algorithm, mode, backend=None):
        if not isinstance(algorithm, algorithms.CipherAlgorithm):
            raise TypeError("Expected interface of CipherAlgorithm.")
        if mode is not None:
            if not isinstance(mode, modes.Mode):
                raise TypeError("Expected interface of Mode.")
            mode.validate_for_algorithm(algorithm)
        self.algorithm, self.mode = algorithm, mode

    def _ctx(self, encrypt):
        a, m = self.algorithm, self.mode
        if isinstance(a, algorithms.ARC4):
            if m is not None:
                raise ValueError("ARC4 takes no mode")
            return _StreamCtx("RC4", a.key)
        if isinstance(a, algorithms.ChaCha20):
            if m is not None:
                raise ValueError("ChaCha20 takes no mode")
            return _StreamCtx("ChaCha20", a.key, a.nonce)
        if m is None:
            raise ValueError("a block cipher needs a mode")
        if isinstance(m, (modes.CBC, modes.ECB)):
            return _BlockCtx(a, m, encrypt)
        raise Unsupported("cipher mode %s in the ideal model" % m.name)

    def encryptor(self):
        return self._ctx(True)

    def decryptor(self):
        return self._ctx(False)
