from cryptography._model import to_sb


def _key(key, sizes, name):
    k = to_sb(key, "key")
    if len(k) * 8 not in sizes:
        raise ValueError("Invalid key size (%d) for %s." % (len(k) * 8, name))
    return k


class CipherAlgorithm:
    block_size = None   # bits


class AES(CipherAlgorithm):
    name = "AES"
    block_size = 128

    def __init__(self, key):
        self.key = _key(key, (128, 192, 256, 512), "AES")


class Camellia(CipherAlgorithm):
    name = "camellia"
    block_size = 128

    def __init__(self, key):
        self.key = _key(key, (128, 192, 256), "camellia")


class TripleDES(CipherAlgorithm):
    name = "3DES"
    block_size = 64

    def __init__(self, key):
        k = to_sb(key, "key")
        if len(k) == 8:
            k = k + k + k
        elif len(k) == 16:
            k = k + k[:8]
        self.key = _key(k, (192,), "3DES")


class IDEA(CipherAlgorithm):
    name = "IDEA"
    block_size = 64

    def __init__(self, key):
        self.key = _key(key, (128,), "IDEA")


class ARC4(CipherAlgorithm):
    name = "RC4"

    def __init__(self, key):
        self.key = _key(key, (40, 56, 64, 80, 128, 160, 192, 256), "RC4")


class ChaCha20(CipherAlgorithm):
    name = "ChaCha20"

    def __init__(self, key, nonce):
        self.key = _key(key, (256,), "ChaCha20")
        self.nonce = to_sb(nonce, "nonce")
        if len(self.nonce) != 16:
            raise ValueError("nonce must be 128-bits (16 bytes)")
