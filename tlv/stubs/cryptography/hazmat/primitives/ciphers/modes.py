from cryptography._model import to_sb


class Mode:
    name = None


class _IvMode(Mode):
    def __init__(self, initialization_vector):
        self.initialization_vector = to_sb(initialization_vector, "initialization_vector")

    def validate_for_algorithm(self, algorithm):
        if len(self.initialization_vector) * 8 != algorithm.block_size:
            raise ValueError("Invalid IV size (%d) for %s." % (len(self.initialization_vector), self.name))


class CBC(_IvMode):
    name = "CBC"


class CFB(_IvMode):
    name = "CFB"


class CTR(Mode):
    name = "CTR"

    def __init__(self, nonce):
        self.nonce = to_sb(nonce, "nonce")

    def validate_for_algorithm(self, algorithm):
        if len(self.nonce) * 8 != algorithm.block_size:
            raise ValueError("Invalid nonce size (%d) for CTR." % len(self.nonce))


class ECB(Mode):
    name = "ECB"

    def validate_for_algorithm(self, algorithm):
        pass


class GCM(Mode):
    name = "GCM"

    def __init__(self, initialization_vector, tag=None, min_tag_length=16):
        self.initialization_vector = to_sb(initialization_vector, "initialization_vector")
        self.tag = tag

    def validate_for_algorithm(self, algorithm):
        pass
