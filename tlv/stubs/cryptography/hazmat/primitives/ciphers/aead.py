"""AEAD as an ideal cipher: encrypt() returns fresh symbolic ciphertext and registers the event; decrypt() returns the registered
plaintext iff the ciphertext is that event's and key, nonce and associated data agree; otherwise InvalidTag.  Distinct
encryptions yield distinct ciphertexts (assumed)."""
import z3
from cryptography._model import to_sb, same_terms, axiom, events
from cryptography.exceptions import InvalidTag
from tlv.sx.core import ctx
from tlv.sx.symbytes import SymBytes, fresh_bytes


class _AEAD:
    NAME = None
    KEY_SIZES = ()
    tag_len = 16

    def _init(self, key):
        self._key = to_sb(key, "key")
        if len(self._key) not in self.KEY_SIZES:
            raise ValueError("%s key must be %s bytes." % (self.NAME, " or ".join(str(k) for k in self.KEY_SIZES)))

    def _check_nonce(self, nonce):
        raise NotImplementedError

    def _args(self, nonce, data, aad):
        n = to_sb(nonce, "nonce")
        d = to_sb(data, "data")
        a = to_sb(b"" if aad is None else aad, "associated_data")
        self._check_nonce(n, d)
        return n, d, a

    def encrypt(self, nonce, data, associated_data):
        n, d, a = self._args(nonce, data, associated_data)
        ct = fresh_bytes("ct_" + self.NAME, len(d) + self.tag_len)
        evs = events("aead")
        for e in evs:
            if len(e["ct"]) == len(ct):
                axiom(ct.bv() != e["ct"].bv())
        evs.append({"alg": self.NAME, "tag": self.tag_len, "key": self._key, "nonce": n, "aad": a, "pt": d, "ct": ct})
        return ct

    def decrypt(self, nonce, data, associated_data):
        n, d, a = self._args(nonce, data, associated_data)
        if len(d) < self.tag_len:
            raise InvalidTag
        cands = [e for e in events("aead") if len(e["ct"]) == len(d)]
        hit = None
        for e in cands:
            if same_terms(e["ct"].e, d.e):
                hit = e
                break
        if hit is None:
            # ideal cipher: a byte string that is not one of the produced ciphertexts is a forgery and is rejected; it counts as
            # produced only if it is necessarily equal to one (never by a lucky choice of the free ciphertext bytes)
            import z3 as _z3
            c = ctx()
            for e in cands:
                eq = e["ct"] == d
                if eq is True or (eq is not False and not c._check(_z3.Not(eq.t))):
                    hit = e
                    break
        if hit is None:
            raise InvalidTag
        if hit["alg"] == self.NAME and hit["tag"] == self.tag_len and hit["key"] == self._key and hit["nonce"] == n and hit["aad"] == a:
            return hit["pt"]
        raise InvalidTag


class AESGCM(_AEAD):
    NAME = "AESGCM"
    KEY_SIZES = (16, 24, 32)

    def __init__(self, key):
        self._init(key)

    def _check_nonce(self, n, d):
        if len(n) < 8 or len(n) > 128:
            raise ValueError("Nonce must be between 8 and 128 bytes")


class AESCCM(_AEAD):
    NAME = "AESCCM"
    KEY_SIZES = (16, 24, 32)

    def __init__(self, key, tag_length=16):
        self._init(key)
        if not isinstance(tag_length, int):
            raise TypeError("tag_length must be an integer")
        if tag_length not in (4, 6, 8, 10, 12, 14, 16):
            raise ValueError("Invalid tag_length")
        self.tag_len = tag_length

    def _check_nonce(self, n, d):
        if not 7 <= len(n) <= 13:
            raise ValueError("Nonce must be between 7 and 13 bytes")
        if 2 ** (8 * (15 - len(n))) < len(d):
            raise ValueError("Data too long for nonce")


class ChaCha20Poly1305(_AEAD):
    NAME = "ChaCha20Poly1305"
    KEY_SIZES = (32,)

    def __init__(self, key):
        self._init(key)

    def _check_nonce(self, n, d):
        if len(n) != 12:
            raise ValueError("Nonce must be 12 bytes")
