from cryptography._model import to_sb, uf_bytes
from cryptography.hazmat.primitives.hashes import _check_alg
from tlv.sx.symbytes import SymBytes


class HMAC:
    def __init__(self, key, algorithm, backend=None):
        _check_alg(algorithm)
        self._key = to_sb(key, "key")
        self.algorithm = algorithm
        self._buf = SymBytes([])
        self._done = False

    def update(self, data):
        if self._done:
            from cryptography.exceptions import AlreadyFinalized
            raise AlreadyFinalized("Context was already finalized.")
        self._buf = self._buf + to_sb(data)

    def finalize(self):
        if self._done:
            from cryptography.exceptions import AlreadyFinalized
            raise AlreadyFinalized("Context was already finalized.")
        self._done = True
        return uf_bytes("HMAC_" + self.algorithm.name, [self._key, self._buf], self.algorithm.digest_size)

    def copy(self):
        h = HMAC(self._key, self.algorithm)
        h._buf = self._buf
        return h
