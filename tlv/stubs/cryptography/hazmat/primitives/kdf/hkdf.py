from cryptography._model import to_sb, uf_bytes
from cryptography.hazmat.primitives.hashes import _check_alg
from tlv.sx.symbytes import SymBytes


class HKDFExpand:
    def __init__(self, algorithm, length, info, backend=None):
        _check_alg(algorithm)
        if not isinstance(length, int):
            raise TypeError("length must be an integer")
        if length > 255 * algorithm.digest_size:
            raise ValueError("Cannot derive keys larger than %d octets." % (255 * algorithm.digest_size))
        self._alg = algorithm
        self._length = length
        self._info = to_sb(b"" if info is None else info, "info")
        self._used = False

    def derive(self, key_material):
        if self._used:
            from cryptography.exceptions import AlreadyFinalized
            raise AlreadyFinalized
        self._used = True
        return uf_bytes("HKDFExpand_" + self._alg.name, [to_sb(key_material, "key_material"), self._info], self._length)


class HKDF:
    def __init__(self, algorithm, length, salt, info, backend=None):
        _check_alg(algorithm)
        self._alg = algorithm
        self._length = length
        self._salt = to_sb(bytes(algorithm.digest_size) if salt is None else salt, "salt")
        self._info = to_sb(b"" if info is None else info, "info")

    def _extract(self, key_material):
        return uf_bytes("HKDFExtract_" + self._alg.name, [self._salt, to_sb(key_material, "key_material")], self._alg.digest_size)

    def derive(self, key_material):
        prk = self._extract(key_material)
        return HKDFExpand(self._alg, self._length, self._info).derive(prk)
