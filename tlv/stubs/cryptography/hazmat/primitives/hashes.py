from cryptography._model import to_sb, uf_bytes
from tlv.sx.symbytes import SymBytes


class HashAlgorithm:
    name = None
    digest_size = None
    block_size = None


class SHA1(HashAlgorithm):
    name = "sha1"
    digest_size = 20
    block_size = 64


class SHA256(HashAlgorithm):
    name = "sha256"
    digest_size = 32
    block_size = 64


class SHA384(HashAlgorithm):
    name = "sha384"
    digest_size = 48
    block_size = 128


class MD5(HashAlgorithm):
    name = "md5"
    digest_size = 16
    block_size = 64


def _check_alg(a):
    if not isinstance(a, HashAlgorithm):
        raise TypeError("Expected instance of hashes.HashAlgorithm.")


class Hash:
    def __init__(self, algorithm, backend=None):
        _check_alg(algorithm)
        self.algorithm = algorithm
        self._buf = SymBytes([])
        self._done = False

    def update(self, data):
        if self._done:
            from cryptography.exceptions import AlreadyFinalized
            raise AlreadyFinalized("Context was already finalized.")
        self._buf = self._buf + to_sb(data)

    def finalize(self):
        if self._done:
            from cryptography.exceptions import AlreadyFinalized
            raise AlreadyFinalized("Context was already finalized.")
        self._done = True
        return uf_bytes("H_" + self.algorithm.name, [self._buf], self.algorithm.digest_size)

    def copy(self):
        h = Hash(self.algorithm)
        h._buf = self._buf
        return h
