"""Concrete end-to-end runs of the unmodified program: real pcapng + key log -> `python -m tlexport.main` in a subprocess with the
real cryptography/dpkt/scapy -> strict independent reading of the output.  Used for replaying counterexamples and for validating
sampled passing paths."""
import os
import shutil
import subprocess
import sys
import tempfile

from tlv.oracle import pcapng, frames as F

REPO = os.environ.get("TLV_REPO", "/repo")
PY = "/venv/bin/python"


def keylog_text(keylog, upper=False, crlf=False):
    lines = []
    for label, cr, secret in keylog:
        h1, h2 = bytes(cr).hex(), bytes(secret).hex()
        if upper:
            h1, h2 = h1.upper(), h2.upper()
        lines.append("%s %s %s" % (label, h1, h2))
    return ("\r\n" if crlf else "\n").join(lines) + ("\r\n" if crlf else "\n")


def run_tlexport(packets, keylog_txt=None, args=(), capture_kw=None, legacy=False, timeout=120, cwd=None, env_extra=None, switch_interval=None):
    """packets: list of (frame bytes, ts).  -> dict(rc, stdout, stderr, frames (decoded), raw (undecoded list), problems)"""
    d = tempfile.mkdtemp(prefix="tlv-e2e-")
    try:
        inp = os.path.join(d, "in.pcap" if legacy else "in.pcapng")
        outp = os.path.join(d, "out.pcapng")
        if legacy:
            pcapng.write_legacy_pcap(inp, packets, **(legacy if isinstance(legacy, dict) else {}))
        else:
            pcapng.write_capture(inp, packets, **(capture_kw or {}))
        cmd = [PY, "-m", "tlexport.main", "-i", inp, "-o", outp]
        if switch_interval is not None:
            # the same program under another (legal) thread switch interval of the interpreter
            cmd = [PY, "-c", "import sys; sys.setswitchinterval(%r); sys.argv[0] = 'tlexport'; import tlexport.main as m; m.run()" % switch_interval,
                   "-i", inp, "-o", outp]
        if keylog_txt is not None:
            kl = os.path.join(d, "keys.log")
            open(kl, "w", newline="").write(keylog_txt)
            cmd += ["-s", kl]
        if legacy:
            cmd.append("-l")
        cmd += list(args)
        env = dict(os.environ)
        env["PYTHONPATH"] = REPO
        env.pop("TLV_ENV_MODE", None)
        if env_extra:
            env.update(env_extra)
        try:
            p = subprocess.run(cmd, cwd=cwd or d, env=env, capture_output=True, text=True, timeout=timeout)
        except subprocess.TimeoutExpired:
            return {"rc": None, "problems": ["timeout after %ds" % timeout], "frames": [], "stdout": "", "stderr": ""}
        res = {"rc": p.returncode, "stdout": p.stdout[-2000:], "stderr": p.stderr[-3000:], "problems": [], "frames": [], "raw": []}
        if p.returncode != 0:
            res["problems"].append("exit status %d: %s" % (p.returncode, p.stderr.strip().splitlines()[-1] if p.stderr.strip() else ""))
            return res
        if not os.path.exists(outp):
            res["problems"].append("no output file")
            return res
        try:
            raw = pcapng.read_capture(outp)
        except pcapng.FormatError as e:
            res["problems"].append("output is not a valid pcapng: %s" % e)
            return res
        res["raw"] = raw
        for i, (fr, ticks, per_s) in enumerate(raw):
            try:
                dd = pcapng.decode_frame(fr)
                dd["ts"] = (ticks, per_s)
                res["frames"].append(dd)
            except pcapng.FormatError as e:
                res["problems"].append("output packet %d malformed: %s (%s)" % (i, e, fr[:40].hex()))
        return res
    finally:
        shutil.rmtree(d, ignore_errors=True)


def concrete_frames(ep, items, t0_us=100000000, dt_us=1000000, group=None, seg_size=None):
    """As pipeline.tcp_frames but with real checksums; timestamps are integer microseconds."""
    out = []
    groups = group or [[i] for i in range(len(items))]
    t = t0_us
    ident = 1
    for g in groups:
        from_server = items[g[0]].from_server
        data = b"".join(bytes(items[i].data) for i in g)
        src = (ep.s_ip, ep.s_port, ep.s_mac) if from_server else (ep.c_ip, ep.c_port, ep.c_mac)
        dst = (ep.c_ip, ep.c_port, ep.c_mac) if from_server else (ep.s_ip, ep.s_port, ep.s_mac)
        pieces = [data] if not seg_size else [data[k:k + seg_size] for k in range(0, len(data), seg_size)]
        for piece in pieces:
            seq = ep.seq[from_server]
            ep.seq[from_server] = seq + len(piece)
            out.append((F.concrete_tcp_frame(src[2], dst[2], ep.ipv == 6, src[0], dst[0], src[1], dst[1], seq, 0, 0x18, piece, ident), t))
            t += dt_us
            ident += 1
    return out


def streams_of(res, ep, server_port=None):
    """Reassembled streams of the conversation between ep's client and (mapped) server port."""
    convs = pcapng.reassemble(res["frames"])
    sp = ep.s_port if server_port is None else server_port
    key = ((ep.c_ip, ep.c_port), (ep.s_ip, sp))
    return convs.get(key), convs


def concrete_udp_frames(ep, dgrams, t_scale=1000000):
    out = []
    ident = 1
    for d in dgrams:
        src = (ep.s_ip, ep.s_port, ep.s_mac) if d.from_server else (ep.c_ip, ep.c_port, ep.c_mac)
        dst = (ep.c_ip, ep.c_port, ep.c_mac) if d.from_server else (ep.s_ip, ep.s_port, ep.s_mac)
        out.append((F.concrete_udp_frame(src[2], dst[2], ep.ipv == 6, src[0], dst[0], src[1], dst[1], bytes(d.data), ident), int(d.ts * t_scale)))
        ident += 1
    return out


def udp_of(res, ep, server_port=None):
    """(from_server, payload, ticks) of the UDP packets between ep's endpoints in the output."""
    sp = ep.s_port if server_port is None else server_port
    out = []
    for d in res["frames"]:
        if d.get("l4") != "udp":
            continue
        if (d["src"], d["sport"], d["dst"], d["dport"]) == (ep.s_ip, sp, ep.c_ip, ep.c_port):
            out.append((True, d["payload"], d["ts"][0]))
        elif (d["src"], d["sport"], d["dst"], d["dport"]) == (ep.c_ip, ep.c_port, ep.s_ip, sp):
            out.append((False, d["payload"], d["ts"][0]))
    return out
