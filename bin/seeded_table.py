#!/usr/bin/env python3
"""Writes /verif/seeded/README.md from the meta.json files."""
import glob, json, os
rows = []
for d in sorted(glob.glob("/verif/seeded/*/meta.json")):
    m = json.load(open(d))
    name = os.path.basename(os.path.dirname(d))
    caught = [c for c, v in m["checks"].items() if v["caught"]]
    missed = [c for c, v in m["checks"].items() if not v["caught"]]
    need = " ".join(m["needs_to_manifest"].split())[:260]
    rows.append("| %s | %s | %s | %s | %s |" % (name, m["property"], ", ".join(caught) or "-", ", ".join("%s (exit %s)" % (c, m["checks"][c]["exit"]) for c in missed) or "-", need))
txt = ["# Seeded changes", "",
       "Changes written by independent sub-agents (given only the property text and a scratch worktree) that break a property while compiling and passing the",
       "60 tests. Each directory holds `patch.diff`, the sub-agent's demonstration `demo.py` (exit 0 on the pristine tree, non-zero on the changed tree; both",
       "confirmed here) and `meta.json` (what it needs to manifest, what was run, what each check reported). `bin/evalmut.py` re-runs the evaluation:",
       "scratch worktree of /repo, `git apply`, pytest, demonstration on both trees, `TLV_REPO=<changed tree> bin/check <ID> --tier quick`.", "",
       "| change | breaks | caught by (exit 1, replayed on the real code) | run but not caught | needs to manifest |", "|---|---|---|---|---|"] + rows
open("/verif/seeded/README.md", "w").write("\n".join(txt) + "\n")
print(len(rows), "seeded changes")
