#!/usr/bin/env python3
"""bin/reeval.py <seeded dir> [<check ids csv>]: re-runs the evaluation of a kept seeded change against the current checks (default: the checks
recorded in its meta.json) and updates those entries of 'checks' in meta.json."""
import json, os, subprocess, sys
d = sys.argv[1].rstrip("/")
meta = json.load(open(d + "/meta.json"))
checks = sys.argv[2] if len(sys.argv) > 2 else ",".join(meta["checks"])
out = subprocess.run(["bin/evalmut.py", d + "/patch.diff", d + "/demo.py", checks], cwd="/verif", capture_output=True, text=True).stdout
res = json.loads(out)
ok = res.get("applies") and "60 passed" in res.get("tests", "") and res.get("demo_pristine_rc") == 0 and res.get("demo_mutant_rc") not in (0, None)
if not ok:
    print(os.path.basename(d), "NOT CONFIRMED", {k: res.get(k) for k in ("applies", "tests", "demo_pristine_rc", "demo_mutant_rc")})
    sys.exit(1)
meta["confirmed"].update({"tests": res["tests"], "demo_exit_on_pristine": res["demo_pristine_rc"], "demo_exit_on_changed": res["demo_mutant_rc"]})
meta["checks"].update({c: {"exit": v["exit"], "caught": v["exit"] == 1, "summary": v["summary"], "first_report": v["first"]} for c, v in res["checks"].items()})
json.dump(meta, open(d + "/meta.json", "w"), indent=1)
print(os.path.basename(d), {c: v["exit"] for c, v in res["checks"].items()})
