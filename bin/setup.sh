#!/bin/sh
# Build the check environment offline: an overlay venv on top of /venv (which holds the
# repository's own dependencies) plus the solver wheels from the local wheelhouse.
set -e
HERE=$(cd "$(dirname "$0")/.." && pwd)
V="$HERE/.venv"
if [ ! -x "$V/bin/python" ] || ! "$V/bin/python" -c 'import z3' 2>/dev/null; then
  rm -rf "$V"
  /venv/bin/python -m venv "$V"
  SP=$("$V/bin/python" -c 'import sysconfig;print(sysconfig.get_paths()["purelib"])')
  printf '%s\n' "import site; site.addsitedir('/venv/lib/python3.12/site-packages')" > "$SP/verif_overlay.pth"
  PIP_NO_INDEX=1 "$V/bin/pip" install -q --no-index --find-links /opt/veriftools/wheels z3-solver cvc5 >/dev/null
fi
"$V/bin/python" -c 'import z3, cvc5, dpkt, scapy, cryptography; print("verif env ok: z3", z3.get_version_string())'
