#!/bin/sh
# runs thorough checks once each and prints wall time and status (sizing aid; not a registered command)
# usage: bin/thorough_all.sh [ids...]   (default: all, cheapest first)
ids="$*"
[ -z "$ids" ] && ids="14 16 11 10 17 12 06 07 15 13 18 09 02 05 08 04 03 01"
for i in $ids; do
  s=$(date +%s)
  all=$(bin/check C$i --tier thorough 2>&1)
  e=$(date +%s)
  echo "$all" | grep -E "^(INCONCLUSIVE|VIOLATION)" | cut -c1-400 | head -5
  echo "C$i $((e-s))s $(echo "$all" | tail -1)"
done
