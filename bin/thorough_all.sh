#!/bin/sh
# runs thorough checks once each and prints wall time and status (sizing aid; not a registered command)
# usage: bin/thorough_all.sh [ids...]   (default: all, cheapest first)
ids="$*"
[ -z "$ids" ] && ids="14 16 11 10 17 12 06 07 15 13 18 09 02 05 08 04 03 01"
for i in $ids; do
  s=$(date +%s)
  out=$(bin/check C$i --tier thorough 2>&1 | tail -1)
  e=$(date +%s)
  echo "C$i $((e-s))s $out"
done
