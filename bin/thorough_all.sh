#!/bin/sh
# runs every thorough check once and prints wall time and status (sizing aid; not a registered command)
for i in 14 16 11 10 17 12 06 07 15 13 18 09 02 05 08 04 03 01; do
  s=$(date +%s)
  out=$(bin/check C$i --tier thorough 2>&1 | tail -1)
  e=$(date +%s)
  echo "C$i $((e-s))s $out"
done
