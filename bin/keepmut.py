#!/usr/bin/env python3
"""bin/keepmut.py <ID> <mN> <name> <checks csv>: evaluates a sub-agent's change and, if confirmed (applies, 60 tests pass, demonstration passes on the
pristine tree and fails on the changed one), stores it as /verif/seeded/<ID>-<name>/ with meta.json including which checks caught it."""
import json, os, shutil, subprocess, sys
pid, m, name, checks = sys.argv[1:5]
src = "/tmp/mut/%s/OUT/%s" % (pid, m)
out = subprocess.run(["bin/evalmut.py", src + "/patch.diff", src + "/demo.py", checks], cwd="/verif", capture_output=True, text=True).stdout
res = json.loads(out)
ok = res.get("applies") and "60 passed" in res.get("tests", "") and res.get("demo_pristine_rc") == 0 and res.get("demo_mutant_rc") not in (0, None)
print(json.dumps(res, indent=1)[:3000])
if not ok:
    print("NOT CONFIRMED - not kept")
    sys.exit(1)
dst = "/verif/seeded/%s-%s" % (pid, name)
os.makedirs(dst, exist_ok=True)
shutil.copy(src + "/patch.diff", dst + "/patch.diff")
shutil.copy(src + "/demo.py", dst + "/demo.py")
notes = open(src + "/notes.txt").read() if os.path.exists(src + "/notes.txt") else ""
meta = {"property": pid, "needs_to_manifest": notes.strip(), "confirmed": {"patch_applies": True, "tests": res["tests"], "demo_exit_on_pristine": res["demo_pristine_rc"],
        "demo_exit_on_changed": res["demo_mutant_rc"], "demo_output_on_changed": res.get("demo_mutant_out", "")},
        "commands": ["git -C <scratch worktree of /repo> apply patch.diff", "/venv/bin/python -m pytest -q -p no:cacheprovider --deselect test/test_all.py::TestProg::testrun",
                     "PYTHONPATH=<tree> /venv/bin/python demo.py", "TLV_REPO=<changed tree> bin/check <ID> --tier quick --no-evidence"],
        "checks": {c: {"exit": v["exit"], "caught": v["exit"] == 1, "summary": v["summary"], "first_report": v["first"]} for c, v in res["checks"].items()}}
json.dump(meta, open(dst + "/meta.json", "w"), indent=1)
print("kept as", dst, {c: v["exit"] for c, v in res["checks"].items()})
