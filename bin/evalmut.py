#!/usr/bin/env python3
"""Evaluate a seeded change: bin/evalmut.py <patch.diff> <demo.py> <check id>[,<check id>...] [--tier quick]
Creates a scratch worktree of /repo outside /repo and /verif, applies the patch there, confirms that the 60 tests pass and that
the demonstration passes on the pristine tree and fails on the changed one, runs the named checks against the changed tree
(TLV_REPO), prints one JSON line, removes the worktree."""
import json, os, subprocess, sys, tempfile, shutil
patch, demo, checks = sys.argv[1], sys.argv[2], sys.argv[3].split(",")
tier = sys.argv[5] if len(sys.argv) > 5 and sys.argv[4] == "--tier" else "quick"
wt = tempfile.mkdtemp(prefix="tlv-mut-")
os.rmdir(wt)
res = {"patch": patch}
try:
    subprocess.run(["git", "-C", "/repo", "worktree", "add", "-q", "--detach", wt, "HEAD"], check=True)
    a = subprocess.run(["git", "-C", wt, "apply", os.path.abspath(patch)], capture_output=True, text=True)
    res["applies"] = a.returncode == 0
    if a.returncode != 0:
        res["apply_error"] = a.stderr[-300:]
    else:
        t = subprocess.run(["/venv/bin/python", "-m", "pytest", "-q", "-p", "no:cacheprovider", "--deselect", "test/test_all.py::TestProg::testrun"], cwd=wt,
                           capture_output=True, text=True)
        res["tests"] = t.stdout.strip().splitlines()[-1] if t.stdout.strip() else t.stderr[-200:]
        for name, tree in (("demo_pristine_rc", "/repo"), ("demo_mutant_rc", wt)):
            env = dict(os.environ, PYTHONPATH=tree)
            d = subprocess.run(["/venv/bin/python", "-W", "ignore", os.path.abspath(demo)], cwd=tempfile.gettempdir(), env=env, capture_output=True, text=True, timeout=600)
            res[name] = d.returncode
            if name == "demo_mutant_rc":
                res["demo_mutant_out"] = (d.stdout + d.stderr).strip()[-300:]
        res["checks"] = {}
        for c in checks:
            env = dict(os.environ, TLV_REPO=wt)
            r = subprocess.run(["bin/check", c, "--tier", tier, "--no-evidence"], cwd="/verif", env=env, capture_output=True, text=True)
            lines = r.stdout.strip().splitlines()
            first = next((l for l in lines if l.startswith("VIOLATION") or l.startswith("INCONCLUSIVE")), "")
            detail = next((l for l in lines if l.strip().startswith("config=")), "")
            res["checks"][c] = {"exit": r.returncode, "summary": lines[-1][:160] if lines else "", "first": (first + " | " + detail)[:420]}
finally:
    subprocess.run(["git", "-C", "/repo", "worktree", "remove", "--force", wt], capture_output=True)
    shutil.rmtree(wt, ignore_errors=True)
print(json.dumps(res, indent=1))
