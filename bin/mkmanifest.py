#!/usr/bin/env python3
"""Regenerates MANIFEST.json from tlv/harness/registry.py (claimed checks) and properties.jsonl (the rest are not_applicable)."""
import json, os, sys
ROOT = os.path.dirname(os.path.dirname(os.path.abspath(__file__)))
sys.path.insert(0, ROOT)
from tlv.harness import registry
ids = [json.loads(l)["id"] for l in open(os.path.join(ROOT, "properties.jsonl"))]
checks = []
for pid in ids:
    r = registry.CHECKS.get(pid)
    if not r:
        continue
    checks.append({
        "property_id": pid,
        "quick_cmd": "bin/check %s --tier quick" % pid,
        "thorough_cmd": "bin/check %s --tier thorough" % pid,
        "evidence_file": "/verif/evidence/%s.json" % pid,
        "replay_cmd_template": "bin/check %s --replay {path}" % pid,
        "engine": "sx",
        "level_claimed": {"category": "model_checking", "text": r["text"], "design_ref": r.get("design_ref", "DESIGN.md section 4, " + pid)},
        "level_note": r["note"],
        "technique": r["technique"],
    })
na = [{"property_id": p, "reason": registry.NOT_APPLICABLE.get(p, "check not built yet (build in progress)")} for p in ids if p not in registry.CHECKS]
m = {
    "version": 1,
    "setup_cmd": "bin/setup.sh",
    "hooks": {"guard": "FKIE_CAD_TLEXPORT_VERIF", "enable": "no hooks are needed: the checks import /repo unmodified and inject shims into module globals in the checking process only",
              "baseline_off_cmd": "cd /repo && /venv/bin/python -m pytest -q -p no:cacheprovider --deselect test/test_all.py::TestProg::testrun",
              "source_commits": [], "add_only": True},
    "engines": [{"name": "sx", "path": "tlv/sx", "serves_properties": sorted(registry.CHECKS),
                 "kind_free_text": "proxy-based symbolic execution of the unmodified Python modules; z3 decides every branch and assertion; counterexamples are replayed on the real code before being reported"}],
    "checks": checks,
    "notes": "bin/check <ID> --tier quick|thorough; exit 0 held / 1 reproduced violation / 3 inconclusive. Defects repaired or recorded: known_findings.jsonl.",
    "not_applicable": na,
}
json.dump(m, open(os.path.join(ROOT, "MANIFEST.json"), "w"), indent=1)
print("claimed:", sorted(registry.CHECKS), "n/a:", [x["property_id"] for x in na])
